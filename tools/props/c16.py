"""C16 -- symbol tables mirror the scoping structure and drive intrinsic resolution."""
import random

import common
import pool

TARGETS = ["Properties/C16.vo"]

# (name, number of arguments); the last rows are specific names of intrinsics (generic name differs)
INTR = [("sin", 1), ("cos", 1), ("abs", 1), ("sqrt", 1), ("exp", 1), ("tan", 1), ("log", 1), ("nint", 1),
        ("sum", 1), ("maxval", 1), ("product", 1), ("size", 1), ("max", 2), ("min", 2), ("mod", 2), ("sign", 2),
        ("dot_product", 2), ("dabs", 1), ("alog", 1), ("iabs", 1), ("dsqrt", 1), ("float", 1), ("amax1", 2),
        ("dsin", 1), ("idnint", 1), ("amin0", 2)]
NARGS = dict(INTR)
TYPES = ["real", "integer", "double precision", "real(kind=8)", "logical", "complex"]


class Scope:
    def __init__(self, kind, name, parent=None):
        self.kind = kind            # module | program | sub | func | block
        self.name = name
        self.parent = parent
        self.decl = []              # intrinsic names declared here (type declaration)
        self.plain = []             # ordinary variables
        self.uses = []              # (module, None | [only names])
        self.body = []              # executable part: ("ref", name, tag) | ("block", Scope) | ("stmt", text)
        self.contains = []          # contained subprograms
        self.typ = {}
        self.form = {}

    def visible(self, name):
        s = self
        while s is not None:
            if name in s.decl:
                return True
            for m, only in s.uses:
                if only is not None and name in [local_name(o) for o in only]:
                    return True
            for m, ren in getattr(s, "renames", []):
                if name in ren:
                    return True
            s = s.parent
        return False


def local_name(o):
    return o.split("=>")[0].strip()


class Gen:
    def __init__(self, seed, std):
        self.rng = random.Random(seed)
        self.std = std
        self.tag = 1000
        self.nscope = 0
        self.refs = []              # (name, tag, shadowed)
        self.modules = []           # Scope objects of modules, each with .exports (intrinsic names declared)

    def fresh(self, prefix):
        self.nscope += 1
        return "%s%d" % (prefix, self.nscope)

    def fill_spec(self, sc, allow_use=True):
        rng = self.rng
        if allow_use and self.modules and rng.random() < 0.5:
            for m in rng.sample(self.modules, min(len(self.modules), rng.randrange(1, 3))):
                if m.plain and rng.random() < 0.25:
                    # a renamed import whose LOCAL name is an intrinsic name
                    loc = rng.choice(INTR)[0]
                    if rng.random() < 0.5:
                        sc.uses.append((m.name, ["%s => %s" % (loc, rng.choice(m.plain))]))
                    else:
                        sc.renames = getattr(sc, "renames", []) + [(m.name, {loc: rng.choice(m.plain)})]
                elif m.decl and rng.random() < 0.7:
                    only = rng.sample(m.decl, rng.randrange(1, len(m.decl) + 1))
                    if rng.random() < 0.4 and m.plain:
                        only = only + [rng.choice(m.plain)]
                    sc.uses.append((m.name, only))
                elif not m.decl:
                    sc.uses.append((m.name, None))      # wildcard: only from modules without intrinsic names
                else:
                    sc.uses.append((m.name, [rng.choice(m.plain)] if m.plain else []))
        imported = {local_name(n) for _, only in sc.uses if only for n in only}
        imported |= {n for _, ren in getattr(sc, "renames", []) for n in ren}
        k = rng.choice([0, 0, 1, 1, 2, 3])
        cands = [n for n, _ in INTR if n not in imported]
        sc.decl = rng.sample(cands, k)
        sc.plain = ["v%d_%d" % (self.nscope, j) for j in range(rng.randrange(1, 3))]
        for n in sc.decl + sc.plain:
            sc.typ[n] = rng.choice(TYPES)
            sc.form[n] = rng.randrange(5)

    def fill_body(self, sc, depth):
        rng = self.rng
        n = rng.randrange(2, 6)
        for _ in range(n):
            r = rng.random()
            if r < 0.6:
                name = rng.choice(INTR)[0] if rng.random() < 0.5 or not self.all_declared(sc) else \
                    rng.choice(self.all_declared(sc))
                self.tag += 1
                sc.body.append(("ref", name, self.tag))
                self.refs.append((name, self.tag, sc.visible(name)))
            elif r < 0.8 and self.std == "f2008" and depth < 3:
                b = Scope("block", "block", sc)
                self.nscope += 1
                self.fill_spec(b, allow_use=rng.random() < 0.3)
                self.fill_body(b, depth + 1)
                sc.body.append(("block", b))
            elif r < 0.9 and depth < 3:
                # a non-scoping construct around references
                inner = Scope("plainif", "", sc)
                inner.decl, inner.uses = [], []
                sc.body.append(("if", self.simple_refs(sc, 2)))
            else:
                sc.body.append(("stmt", "x = x + 1.0"))

    def simple_refs(self, sc, n):
        out = []
        for _ in range(n):
            name = self.rng.choice(INTR)[0]
            self.tag += 1
            out.append(("ref", name, self.tag))
            self.refs.append((name, self.tag, sc.visible(name)))
        return out

    def all_declared(self, sc):
        out = []
        s = sc
        while s is not None:
            out += s.decl
            for _, only in s.uses:
                out += [local_name(n) for n in (only or []) if local_name(n) in NARGS]
            for _, ren in getattr(s, "renames", []):
                out += [n for n in ren if n in NARGS]
            s = s.parent
        return out

    def subprogram(self, parent, depth):
        kind = self.rng.choice(["sub", "func"])
        sc = Scope(kind, self.fresh("s" if kind == "sub" else "f"), parent)
        self.fill_spec(sc)
        self.fill_body(sc, 0)
        if depth < 1 and parent is not None and parent.kind != "module" and False:
            pass
        if (parent is None or parent.kind == "module") and self.rng.random() < 0.4:
            for _ in range(self.rng.randrange(1, 3)):
                sc.contains.append(self.subprogram(sc, depth + 1))
        return sc

    def program(self):
        rng = self.rng
        units = []
        for _ in range(rng.randrange(0, 3)):
            m = Scope("module", self.fresh("m"))
            self.fill_spec(m, allow_use=bool(self.modules))
            if rng.random() < 0.6:
                for _ in range(rng.randrange(1, 3)):
                    m.contains.append(self.subprogram(m, 0))
            self.modules.append(m)
            units.append(m)
        for _ in range(rng.randrange(0, 3)):
            units.append(self.subprogram(None, 0))
        if rng.random() < 0.8 or not units:
            p = Scope("program", self.fresh("p"))
            self.fill_spec(p)
            self.fill_body(p, 0)
            for _ in range(rng.randrange(0, 3)):
                p.contains.append(self.subprogram(p, 1))
            units.insert(rng.randrange(0, len(units) + 1) if rng.random() < 0.3 else len(units), p)
            # a main program without PROGRAM statement (only as the last unit: nothing after it would be read)
            p.headless = units[-1] is p and rng.random() < 0.25
        # modules must precede their users only for our own bookkeeping (fparser does not care): keep order
        return units


def ref_text(name, tag):
    return "%s(%s)" % (name, ", ".join([str(tag)] + ["2"] * (NARGS[name] - 1)))


def render(units):
    out = []

    def spec(sc, ind):
        # the module nature and the optional '::' are spelling: they change neither the table nor what is imported
        pre = lambda m: ("use %s", "use :: %s", "use, intrinsic :: %s", "use, non_intrinsic :: %s",       # noqa
                         "USE,INTRINSIC::%s")[(len(m) + len(sc.name or "") + len(out)) % 5] % m
        for m, only in sc.uses:
            out.append(ind + (pre(m) if only is None else "%s, only: %s" % (pre(m), ", ".join(only))))
        for m, ren in getattr(sc, "renames", []):
            out.append(ind + "%s, %s" % (pre(m), ", ".join("%s => %s" % kv for kv in ren.items())))
        out.append(ind + "real :: x")
        for n in sc.decl:
            dims = ", ".join(["10"] * NARGS[n])
            f = sc.form.get(n, 0)
            if f == 1:          # a user function of that name
                out.append(ind + "%s, external :: %s" % (sc.typ[n], n))
            elif f == 2:
                out.append(ind + "%s, dimension(%s) :: %s" % (sc.typ[n], dims, n))
            elif f == 3:        # old style, no double colon
                out.append(ind + "%s %s(%s)" % (sc.typ[n], n, dims))
            elif f == 4:
                out.append(ind + "%s, target, save :: %s(%s)" % (sc.typ[n], n, dims))
            else:
                out.append(ind + "%s :: %s(%s)" % (sc.typ[n], n, dims))
        for n in sc.plain:
            out.append(ind + "%s :: %s" % (sc.typ[n], n))

    def body(items, ind):
        for it in items:
            if it[0] == "ref":
                out.append(ind + "x = %s" % ref_text(it[1], it[2]))
            elif it[0] == "stmt":
                out.append(ind + it[1])
            elif it[0] == "if":
                out.append(ind + "if (x > 0.0) then")
                body(it[1], ind + "  ")
                out.append(ind + "end if")
            elif it[0] == "block":
                b = it[1]
                out.append(ind + "block")
                spec(b, ind + "  ")
                body(b.body, ind + "  ")
                out.append(ind + "end block")

    def unit(sc, ind):
        head = {"module": "module %s", "program": "program %s", "sub": "subroutine %s()", "func": "function %s()"}[sc.kind]
        tail = {"module": "end module %s", "program": "end program %s", "sub": "end subroutine %s",
                "func": "end function %s"}[sc.kind]
        if not getattr(sc, "headless", False):
            out.append(ind + head % sc.name)
        spec(sc, ind + "  ")
        if sc.kind != "module":
            body(sc.body, ind + "  ")
        if sc.contains:
            out.append(ind + "contains")
            for c in sc.contains:
                unit(c, ind + "  ")
        out.append(ind + (tail % sc.name if not getattr(sc, "headless", False) else ("end", "end program")[len(out) % 2]))

    for u in units:
        unit(u, "")
    return "\n".join(out) + "\n"


def expected_tables(units):
    def blocks(items):
        out = []
        for it in items:
            if it[0] == "block":
                out.append(it[1])
        return out

    def tab(sc):
        kids = [tab(b) for b in blocks(sc.body)] + [tab(c) for c in sc.contains]
        return ("block" if sc.kind == "block" else ("fparser2:main_program" if getattr(sc, "headless", False) else sc.name),
                sorted(set(sc.decl + sc.plain + ["x"])),
                sorted((m, None if only is None else sorted(local_name(o) for o in only))
                       for m, only in merge_uses(list(sc.uses) + [(m2, None) for m2, _ in getattr(sc, "renames", [])])), kids)
    return [tab(u) for u in units]


def merge_uses(uses):
    d = {}
    for m, only in uses:
        if m in d:
            if d[m] is None or only is None:
                d[m] = None
            else:
                d[m] = d[m] + only
        else:
            d[m] = only
    return d.items()


def real_tables():
    import fp
    ST = fp.SYMBOL_TABLES

    def tab(t):
        name = t.name
        if name.startswith("block:"):
            name = "block"
        mods = []
        for mn, mu in t._modules.items():
            only = mu.only_list
            mods.append((mn, None if mu.wildcard_import and only is None else sorted(only or [])))
        return (name, sorted(t._data_symbols.keys()), sorted(mods), [tab(c) for c in t.children])
    return [tab(t) for t in ST._symbol_tables.values()]


def check_one(arg):
    std, seed = arg
    import fp
    g = Gen(seed, std)
    units = g.program()
    src = render(units)
    rep = dict(std=std, seed=seed, source=src)
    fp.parser(std)
    fp.SYMBOL_TABLES.clear()
    o = fp.parse(src, std=std, clear=False)
    fails = []
    if o.kind != "tree":
        fp.SYMBOL_TABLES.clear()
        return [("generated_program_rejected", "%s line %s" % (o.kind, o.line), rep)]
    got = real_tables()
    fp.SYMBOL_TABLES.clear()
    exp = expected_tables(units)

    def strip(t, level):
        return (t[0],) + tuple(t[1:level]) + ([strip(k, level) for k in t[3]],)
    if [strip(t, 1) for t in got] != [strip(t, 1) for t in exp]:
        fails.append(("table_tree_differs", "table tree %r, scope tree %r" % ([strip(t, 1) for t in got],
                                                                              [strip(t, 1) for t in exp]), rep))
    elif [strip(t, 2) for t in got] != [strip(t, 2) for t in exp]:
        fails.append(("table_symbols_differ", "declared symbols per table differ: %r vs %r"
                      % ([strip(t, 2) for t in got], [strip(t, 2) for t in exp]), rep))
    elif [strip(t, 3) for t in got] != [strip(t, 3) for t in exp]:
        fails.append(("table_modules_differ", "modules used per table differ: %r vs %r"
                      % ([strip(t, 3) for t in got], [strip(t, 3) for t in exp]), rep))
    if seed % 2 == 0:
        # the same program with a comment line in front of every line, comments KEPT: the same tables
        srcc = "".join("! note %d\n%s\n" % (k, l) for k, l in enumerate(src.split("\n")[:-1]))
        fp.SYMBOL_TABLES.clear()
        oc = fp.parse(srcc, std=std, clear=False, ignore_comments=False)
        gotc = real_tables() if oc.kind == "tree" else None
        fp.SYMBOL_TABLES.clear()
        if gotc is None or [strip(t, 3) for t in gotc] != [strip(t, 3) for t in exp]:
            fails.append(("tables_differ_with_comments_kept", "a comment line in front of every line, comments kept: %s; tables %r, "
                          "scope tree %r" % (oc.kind, [strip(t, 1) for t in gotc or []][:3], [strip(t, 1) for t in exp][:3]),
                          dict(rep, source=srcc, comments_kept=True)))
    intr = set()
    for n in fp.utils.walk(o.tree, fp.F3.Intrinsic_Function_Reference):
        intr.add(str(n).lower().replace(" ", ""))
    text = str(o.tree).lower().replace(" ", "")
    headless_after_units = len(units) > 1 and getattr(units[-1], "headless", False)
    for name, tag, shadowed in g.refs:
        key = ref_text(name, tag).replace(" ", "")
        if key not in text:
            if headless_after_units:
                continue      # recorded finding F5 (C02): the units in front of an implicit main program are not in the tree
            fails.append(("reference_lost", "reference %s missing from the printed tree" % key, rep))
            continue
        is_intr = key in intr
        if is_intr and shadowed:
            fails.append(("shadowed_name_resolved_as_intrinsic", "%s is declared in a visible scope but is an "
                          "Intrinsic_Function_Reference" % key, rep))
        elif not is_intr and not shadowed:
            fails.append(("intrinsic_not_resolved", "%s is not declared in any visible scope but is not an "
                          "Intrinsic_Function_Reference" % key, rep))
    return fails


BLOCK_IN_LABEL_DO = ("program pDo\n  real :: x\n  integer :: i\n  do 10 i = 1, 3\n    block\n      integer :: j\n      j = i\n"
                     "    end block\n10 x = cos(1.0)\nend program pDo\n")


def check_block_in_label_do(_):
    """recorded finding, kept apart: a BLOCK inside a labelled DO that ends on an action statement"""
    import fp
    fp._current_std[0] = None
    o = fp.parse(BLOCK_IN_LABEL_DO, std="f2008")
    if o.kind != "tree":
        fp.SYMBOL_TABLES.clear()
        return []
    got = real_tables()
    fp.SYMBOL_TABLES.clear()
    shape = [(t[0], [k[0] for k in t[3]]) for t in got]
    if shape != [("pdo", ["block"])]:
        return [("duplicate_block_table_after_backtracked_label_do", "table tree %r, scope tree [('pdo', ['block'])]" % (shape,),
                 dict(std="f2008", source=BLOCK_IN_LABEL_DO))]
    return []


def check_second(arg):
    """two programs (same unit names) parsed one after the other, each after its own ParserFactory().create(std) and with
    no explicit SYMBOL_TABLES.clear(): the tables after the second parse are the scope tree of the SECOND program"""
    std, seed = arg
    import fp
    from fparser.two.parser import ParserFactory
    u1, u2 = Gen(seed, std).program(), Gen(seed + 1, std).program()
    s1, s2 = render(u1), render(u2)
    rep = dict(std=std, seed=seed, first=s1, source=s2, second_parse=True)
    fails = []
    try:
        for src in (s1, s2):
            p = ParserFactory().create(std=std)
            try:
                p(fp.reader(src))
            except fp.utils.FortranSyntaxError:
                return []
        got = real_tables()
    finally:
        fp._current_std[0] = None
        fp.SYMBOL_TABLES.clear()
    exp = expected_tables(u2)

    def strip(t, level):
        return (t[0],) + tuple(t[1:level]) + ([strip(k, level) for k in t[3]],)
    if [strip(t, 2) for t in got] != [strip(t, 2) for t in exp]:
        fails.append(("second_parse_tables_differ", "after create(); parse(P1); create(); parse(P2) the tables are %r, the scope tree of P2 is %r"
                      % ([strip(t, 1) for t in got][:4], [strip(t, 1) for t in exp][:4]), rep))
    return fails


def run(ctx):
    proof = common.leg_p(ctx, TARGETS)
    import engine_corr
    cc = []
    for k in range(ctx.n(40, 600)):
        std = ("f2003", "f2008")[k % 2]
        g = Gen(ctx.seed * 211 + k, std)
        cc.append((std, render(g.program()), dict(ignore_comments=True)))
    corr = engine_corr.corr_cases(cc)        # table structure after the parse is one of the compared observables
    corr["samples"] = [dict(std=cc[1][0], source=cc[1][1])]
    jobs = [(("f2003", "f2008")[k % 2], ctx.seed * 223 + k) for k in range(ctx.n(400, 12000))]
    failures = []
    nref = 0
    for job, (st, r) in zip(jobs, pool.pmap(check_one, jobs, chunksize=10)):
        if st != "ok":
            failures.append(("harness_error", r[:300], dict(job=list(job))))
        else:
            failures += [(s, d, dict(rep, job=list(job))) for s, d, rep in r]
    sj = [(("f2003", "f2008")[k % 2], ctx.seed * 227 + 2 * k) for k in range(ctx.n(60, 1500))]
    for job, (st, r) in zip(sj, pool.pmap(check_second, sj, chunksize=10)):
        if st != "ok":
            failures.append(("harness_error", r[:300], dict(job=list(job))))
        else:
            failures += [(s, d, dict(rep, job=list(job))) for s, d, rep in r]
    for st, r in pool.pmap(check_block_in_label_do, [0], chunksize=1):
        failures += r if st == "ok" else [("harness_error", r[:300], {})]
    e2e = dict(cases=len(jobs) + len(sj) + 1, distinct=len(set(jobs)) + len(sj) + 1, failures=failures, second_parses=len(sj),
               rule="pairs of programs parsed one after the other, each after its own create(std): the tables are those of the "
                    "second; generated programs: 0-2 modules (with module procedures), external subprograms, a main program with "
                    "internal subprograms, nested BLOCK constructs (f2008), random type declarations of intrinsic "
                    "names (generic and specific) at chosen levels, USE with ONLY lists importing such names, wildcard "
                    "USE of modules without such names; references name(tag) to intrinsic names before/after/inside "
                    "nested scopes: table tree == scope tree, symbols and used modules per table, and for every "
                    "reference: Intrinsic_Function_Reference iff the name is not declared in a visible scope",
               samples=[dict(job=list(jobs[0]))])
    return common.finish(ctx, proof, corr, e2e, extra_assumptions=[
        "proved: the enter/exit bookkeeping appends exactly the scope forest (any depth/width), a failed attempt is "
        "erased (fresh name), every rule invocation restores the current scope (engine K3), a (line, class) pair is "
        "matched at most once (so declaration side effects are not repeated); that the engine emits enter/exit in "
        "bracket order of the scoping statements is checked by the correspondence (table structure compared)",
        "the contents of a table (symbols, modules) and the lookup in Intrinsic_Function_Reference.match are "
        "statement-level code: not modelled, checked end to end against ground truth known by construction"])


def replay(ctx, data):
    if data.get("source") == BLOCK_IN_LABEL_DO:
        return not check_block_in_label_do(0)
    if data.get("second_parse"):
        return not check_second(tuple(data["job"]))
    return not check_one(tuple(data["job"]))
