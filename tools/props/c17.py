"""C17 -- the Fortran 2008 parser accepts everything the Fortran 2003 parser accepts."""
import re

import common
import gen
import pool

TARGETS = ["Properties/C17.vo"]


def fold_outside_literals(text):
    out = []
    q = None
    for ch in text:
        if q:
            out.append(ch)
            if ch == q:
                q = None
        elif ch in "'\"":
            q = ch
            out.append(ch)
        else:
            out.append(ch.lower())
    return "".join(out)


def check_p(arg):
    seed, keep = arg
    import fp
    laid_out = False
    if isinstance(seed, str):
        src, laid_out = seed, True            # a catalogue entry: takes part when the F2003 parser accepts it
    else:
        st, _ = gen.gen_program(abs(seed), "f2003", size=0.6)
        src = gen.render(st)
        if seed < 0:
            # the same program in a free layout (blanks between tokens widened or removed, continuations, comments)
            import layout
            import random
            src = layout.free_layout(st, random.Random(seed), gen.USER_NAMES, comments=True, p_comment=0.2, p_break=0.3,
                                     p_respace=0.6, p_tight=0.3).text()
            laid_out = True
    a = fp.parse(src, std="f2003", ignore_comments=not keep)
    fp._current_std[0] = None
    b = fp.parse(src, std="f2008", ignore_comments=not keep)
    fp._current_std[0] = None
    rep = dict(source=src)
    if a.kind != "tree":
        if laid_out:
            return []
        return [("generator", "F2003 program rejected by the F2003 parser", rep)]
    if b.kind != "tree":
        return [("f2008_rejects_f2003_program", "accepted under f2003, %s under f2008 (line %s)" % (b.kind, b.line), rep)]
    # exact comparison unless the program uses the name of an F2008-only intrinsic
    from fparser.two.Fortran2008.intrinsics_f08 import Intrinsic_Name as N08
    only08 = {n.lower() for n in set(N08.generic_function_names) - set(fp.F3.Intrinsic_Name.generic_function_names)}
    uses08 = bool(only08 & set(re.findall(r"[a-z_][a-z0-9_]*", fold_outside_literals(src))))
    fails = []
    sa, sb = str(a.tree), str(b.tree)
    la, lb = sa.split("\n"), sb.split("\n")
    if len(la) == len(lb):
        # recorded finding: the F2003 Procedure_Stmt prints 'MODULE PROCEDURE' whether or not MODULE was written
        # (pinned by test_procedure_stmt); the line is taken from the F2008 text and the comparison goes on
        for i, (x, y) in enumerate(zip(la, lb)):
            if x != y and y.strip().startswith("PROCEDURE ") and x.strip() == "MODULE " + y.strip() \
                    and re.search(r"(?im)^\s*procedure\s+[a-z]", src):
                la[i] = y
                if not fails:
                    fails.append(("f2003_prints_module_procedure_for_procedure", "f2003: %r  f2008: %r" % (x, y), rep))
        sa = "\n".join(la)

    class _T:        # the texts compared below
        def __init__(self, t):
            self.tree = t
    a, b = _T(sa), _T(sb)
    if not uses08 and str(a.tree) != str(b.tree):
        la, lb = str(a.tree).split("\n"), str(b.tree).split("\n")
        i = next((k for k in range(min(len(la), len(lb))) if la[k] != lb[k]), 0)
        return fails + [("regenerated_text_differs_in_case", "f2003: %r  f2008: %r" % (la[i:i + 1], lb[i:i + 1]), rep)]
    if fold_outside_literals(str(a.tree)) != fold_outside_literals(str(b.tree)):
        la, lb = str(a.tree).split("\n"), str(b.tree).split("\n")
        i = next((k for k in range(min(len(la), len(lb))) if fold_outside_literals(la[k]) != fold_outside_literals(lb[k])), 0)
        return fails + [("regenerated_text_differs", "f2003: %r  f2008: %r" % (la[i:i + 1], lb[i:i + 1]), rep)]
    return fails


def check_q(arg):
    seed = arg
    import fp
    st, _ = gen.gen_program(seed, "f2008", size=0.6)
    if not gen.uses_f2008(st):
        return None
    src = gen.render(st)
    kinds = sorted({s.kind for s in st if "f2008" in s.feats})
    a = fp.parse(src, std="f2008")
    fp._current_std[0] = None
    b = fp.parse(src, std="f2003")
    fp._current_std[0] = None
    rep = dict(source=src, f2008_constructs=kinds)
    fails = []
    if a.kind != "tree":
        fails.append(("generator", "F2008 program rejected by the F2008 parser: %s" % a.kind, rep))
    if b.kind == "tree":
        # which construct slipped through?  try each F2008-only statement kind alone
        fails.append(("f2003_accepts_f2008_construct:" + "+".join(kinds), "the F2003 parser accepts a program using %s" % kinds, rep))
    return fails


def single_construct_programs():
    """one F2008-only construct per program (so that acceptance by f2003 pins the construct)"""
    body = {
        "block": "block\n  integer :: tmpI\n  tmpI = 1\nend block",
        "critical": "critical\n  xPos = 1.0\nend critical",
        "do_concurrent": "do concurrent (iCnt = 1:3)\n  aVec(iCnt) = 0.0\nend do",
        "error_stop": "error stop 1",
        "allocate_mold": "allocate(dynA, mold = aVec)",
        "open_newunit": "open(newunit = iCnt, file = 'x')",
    }
    decl = {
        "contiguous_var": "real, contiguous, pointer :: cgP(:)",
        "codimension_var": "integer, codimension[*] :: coI",
        "contiguous_component": "type :: tQ\n  real, contiguous, pointer :: cmpC(:)\nend type tQ",
        "codimension_component": "type :: tQ\n  integer, allocatable, codimension[:] :: cmpD\nend type tQ",
    }
    progs = {}
    head = "program progMain\n  integer :: iCnt\n  real :: xPos\n  real :: aVec(3)\n  real, allocatable :: dynA(:)\n"
    for k, b in body.items():
        progs[k] = head + b + "\nend program progMain\n"
    for k, d in decl.items():
        progs[k] = "program progMain\n" + d + "\n  integer :: iCnt\nend program progMain\n"
    progs["submodule"] = "module modAlpha\nend module modAlpha\nsubmodule (modAlpha) smodX\nend submodule smodX\n"
    progs["contiguous_dummy"] = "subroutine subTwo(argA)\n  real, contiguous :: argA(:)\nend subroutine subTwo\n"
    return progs


def run(ctx):
    proof = common.leg_p(ctx, TARGETS)
    # Leg C: the registry the Coq model recomputes from the declarations equals the dumped registry: that IS the
    # correspondence (C17_setup_model_*), re-established on every run from a fresh dump; count its size here
    n03 = n08 = 0
    try:
        txt = open(common.COQ + "/Gen/RegistryGen.v").read()
        n03 = txt.split("Definition registry03")[1].split("].")[0].count("%N, [")
        n08 = txt.split("Definition registry08")[1].split("].")[0].count("%N, [")
    except Exception:
        pass
    corr = dict(cases=n03 + n08, distinct=n03 + n08, disagreements=[] if proof["ok"] else
                [dict(what="setup model != dumped registry or obligations no longer check")],
                samples=[dict(keys_f2003=n03, keys_f2008=n08)])
    failures = []
    pj = [(ctx.seed * 89 + k, k % 3 == 0) for k in range(ctx.n(120, 4000))]
    pj += [(-(ctx.seed * 89 + k + 1), k % 3 == 0) for k in range(ctx.n(120, 4000))]       # the same programs laid out freely
    import catalogue
    import kwnames
    cat = catalogue.sources()
    kw = kwnames.exhaustive(ctx.seed, [w for w in kwnames.WRAPS if w != "%s\n"])
    pj += [(src, False) for src in (cat[ctx.seed % 3::3] + kw[ctx.seed % 6::6] if ctx.quick else cat + kw)]
    for job, (st, r) in zip(pj, pool.pmap(check_p, pj, chunksize=6)):
        if st != "ok":
            failures.append(("harness_error", r[:300], dict(job=job)))
        else:
            failures += [(s, d, dict(rep, job=list(job))) for s, d, rep in r]
    qj = [ctx.seed * 97 + k for k in range(ctx.n(80, 2500))]
    nq = 0
    for job, (st, r) in zip(qj, pool.pmap(check_q, qj, chunksize=6)):
        if st != "ok":
            failures.append(("harness_error", r[:300], dict(job=job)))
        elif r is not None:
            nq += 1
            failures += [(s, d, dict(rep, qjob=job)) for s, d, rep in r]
    import fp
    for name, src in single_construct_programs().items():
        a = fp.parse(src, std="f2008")
        fp._current_std[0] = None
        b = fp.parse(src, std="f2003")
        fp._current_std[0] = None
        if a.kind != "tree":
            failures.append(("f2008_rejects_own_construct:" + name, "f2008 parser: %s" % a.kind, dict(source=src)))
        if b.kind == "tree":
            failures.append(("f2003_accepts_f2008_construct:" + name, "the F2003 parser accepts %s" % name, dict(source=src)))
    e2e = dict(cases=len(pj) + nq + 12, distinct=len(set(pj)) + nq, programs_q=nq, failures=failures,
               rule="generated valid F2003 programs through both parsers: str equal case-insensitively outside "
                    "character literals (no F2008-only intrinsic names are used); generated programs using at least "
                    "one F2008-only construct and 12 single-construct programs (submodule, BLOCK, CRITICAL, DO "
                    "CONCURRENT, ERROR STOP, MOLD=, NEWUNIT=, CONTIGUOUS/CODIMENSION as variable, dummy, component): "
                    "the 2003 parser raises, the 2008 parser succeeds",
               samples=[dict(job=list(pj[0]))])
    return common.finish(ctx, proof, corr, e2e, extra_assumptions=[
        "that every overriding 2008 class ACCEPTS at least the strings its 2003 namesake accepts is statement-level "
        "(not in the registry): checked end-to-end only"])


def replay(ctx, data):
    if "job" in data:
        return not check_p(tuple(data["job"]))
    if "qjob" in data:
        return not check_q(data["qjob"])
    import fp
    return fp.parse(data["source"], std="f2003").kind != "tree"
