"""C15 -- OpenMP conditional-compilation lines: parsed when enabled, comments otherwise."""
import random
import re

import common
import gen
import layout
import pool

TARGETS = ["Properties/C15.vo"]


def sentinelize_free(st, sel, rng):
    """free-form source in which the statements with index in sel are hidden behind '!$ ' (continued ones too),
    with genuine '!$omp' directives sprinkled in; returns lines"""
    lines = []
    for i, s in enumerate(st):
        if rng.random() < 0.1:
            lines.append("!$omp parallel do")
        text = s.line("")
        if i in sel:
            toks = layout.split_tokens(s.text)
            lits = [(a, b) for a, b, k in toks if k == "str" and b - a >= 5 and "&" not in s.text[a:b] and "!" not in s.text[a:b]]
            if lits and rng.random() < 0.7:
                # the line break falls inside a character literal: both continuation lines carry the sentinel,
                # the second one starts with '&' (the literal goes on right after it)
                a, b = rng.choice(lits)
                cut = rng.randrange(a + 2, b - 2)
                head = ("%d " % s.label if s.label is not None else "") + ("%s: " % s.name if s.name else "")
                lines.append("!$ " + head + s.text[:cut] + "&")
                lines.append(rng.choice(["!$ &", "!$&", "  !$   &"]) + s.text[cut:])
            elif len(toks) > 3 and rng.random() < 0.6:
                cut = toks[rng.randrange(2, len(toks))][0]
                head = ("%d " % s.label if s.label is not None else "") + ("%s: " % s.name if s.name else "")
                lines.append("!$ " + head + s.text[:cut] + " &")
                if rng.random() < 0.3:
                    lines.append("! a comment between")
                lines.append(rng.choice(["!$ &", "!$&", "!$ ", "  !$   &"]) + s.text[cut:])
            else:
                lines.append(rng.choice(["!$ ", "  !$ ", "!$   "]) + text)
        else:
            lines.append("   " + text)
    return lines


def chunk_at_tokens(body, width):
    """cut a statement into chunks of at most `width` characters at token boundaries; a cut falls right after a
    token, so the following chunk starts with the blank(s) that were there (nothing is lost to rstrip)"""
    toks = layout.split_tokens(body)
    chunks = []
    start = 0
    while len(body) - start > width:
        ends = [t[1] for t in toks if start < t[1] <= start + width]
        if not ends:
            break
        cut = ends[-1]
        chunks.append(body[start:cut])
        start = cut
    chunks.append(body[start:])
    return chunks


def sentinelize_fixed(st, sel, rng):
    lines = []
    for i, s in enumerate(st):
        body = ("%s: " % s.name if s.name else "") + s.text
        lab = "" if s.label is None else str(s.label)
        chunks = chunk_at_tokens(body, 60)
        for k, chn in enumerate(chunks):
            if i in sel:
                sent = rng.choice(["!$", "c$", "C$", "*$"])
                if k == 0:
                    lines.append(sent + lab.rjust(3)[:3] + " " + chn)      # label in columns 3-5
                else:
                    lines.append(sent + "   " + rng.choice("&1x") + chn)
            else:
                lines.append((lab.rjust(5)[:5] + " " if k == 0 else "     &") + chn)
    return lines


def plain_fixed(st, lines, sel):
    """the fixed-form lines with every conditional sentinel (columns 1-2) replaced by two blanks"""
    out = []
    for l in lines:
        if re.match(r"^[!cC*]\$([ 0-9]{3}[ 0]|   [^ 0])", l):
            l = "  " + l[2:]
        out.append(l)
    return "\n".join(out) + "\n"


def check_one(arg):
    std, seed, v = arg
    import fp
    st, _ = gen.gen_program(seed, std, size=0.5)
    rng = random.Random(seed * 19 + v)
    # S: whole simple executable statements without three-digit-plus labels (fixed form keeps labels in cols 3-5)
    cand = [i for i, s in enumerate(st) if s.simple_exec and s.role == "simple"
            and (s.label is None or s.label < 1000) and s.kind not in ("exit", "cycle")]
    sel = set(rng.sample(cand, min(len(cand), rng.randrange(1, 6)))) if cand else set()
    fixed = v % 2 == 1
    P = gen.render(st)
    Pminus = gen.render([s for i, s in enumerate(st) if i not in sel])
    lines = sentinelize_fixed(st, sel, rng) if fixed else sentinelize_free(st, sel, rng)
    if fixed and any(len(l) > 72 + 60 for l in lines):
        return []
    src = "\n".join(lines) + "\n"
    rep = dict(std=std, source=src, form="fixed" if fixed else "free", hidden=sorted(sel))
    refP = fp.parse(P, std=std, ignore_comments=True)
    refM = fp.parse(Pminus, std=std, ignore_comments=True)
    if refP.kind != "tree" or refM.kind != "tree":
        return []           # P minus S is not valid: not in the quantified domain
    fails = []
    on = fp.parse(src, std=std, rd=fp.reader(src, ignore_comments=True, free=not fixed,
                                             include_omp_conditional_lines=True))
    if fixed and v % 4 == 3 and not any("!" in l[6:] for l in lines if l[:1] not in "!cC*"):
        # strict fixed form (mode 'f77': no in-line comments): the sentinels are handled all the same
        rds = fp.FortranStringReader(src, ignore_comments=True, include_omp_conditional_lines=True)
        rds.set_format(fp.FortranFormat(False, True))
        strict = fp.parse(src, std=std, rd=rds)
        plain_rd = fp.FortranStringReader(plain_fixed(st, lines, sel), ignore_comments=True)
        plain_rd.set_format(fp.FortranFormat(False, True))
        sref = fp.parse(src, std=std, rd=plain_rd)
        if sref.kind == "tree" and (strict.kind != "tree" or fp.canon_repr(strict.tree) != fp.canon_repr(sref.tree)):
            fails.append(("enabled_differs_strict_fixed", "strict fixed form (f77 mode), handling enabled: %s, not the tree of the "
                          "source with the sentinels blanked" % strict.kind, dict(rep, form="fixed_strict")))
    if on.kind != "tree":
        fails.append(("enabled_rejected:" + rep["form"], "with handling enabled: %s line %s" % (on.kind, on.line), rep))
    elif fp.canon_repr(on.tree) != fp.canon_repr(refP.tree):
        fails.append(("enabled_tree_differs:" + rep["form"], "tree(sentinel(P,S), enabled) != tree(P)", rep))
    # the same through a FortranFileReader (the option must reach the reader whatever its source is)
    import os, shutil, tempfile
    d = tempfile.mkdtemp(prefix="verif_c15_")
    try:
        pth = os.path.join(d, "prog.f90")
        with open(pth, "w") as fh:
            fh.write(src)
        rdf = fp.FortranFileReader(pth, ignore_comments=True, include_omp_conditional_lines=True)
        rdf.set_format(fp.FortranFormat(not fixed, False))
        onf = fp.parse(src, std=std, rd=rdf)
        if onf.kind != "tree":
            fails.append(("enabled_rejected_file_reader:" + rep["form"],
                          "file reader, handling enabled: %s line %s" % (onf.kind, onf.line), dict(rep, reader="file")))
        elif fp.canon_repr(onf.tree) != fp.canon_repr(refP.tree):
            fails.append(("enabled_tree_differs_file_reader:" + rep["form"],
                          "file reader: tree(sentinel(P,S), enabled) != tree(P)", dict(rep, reader="file")))
    finally:
        shutil.rmtree(d, ignore_errors=True)
    off = fp.parse(src, std=std, rd=fp.reader(src, ignore_comments=True, free=not fixed))
    if off.kind != "tree":
        fails.append(("disabled_rejected:" + rep["form"], "with handling disabled: %s line %s" % (off.kind, off.line), rep))
    elif fp.canon_repr(off.tree) != fp.canon_repr(refM.tree):
        fails.append(("disabled_tree_differs:" + rep["form"], "tree(sentinel(P,S), disabled) != tree(P minus S)", rep))
    # handling disabled, comments kept, directive processing on: a sentinel line is an ordinary comment, not a directive
    kd = fp.parse(src, std=std, rd=fp.reader(src, ignore_comments=False, free=not fixed, process_directives=True))
    if kd.kind == "tree":
        dirs = [str(n) for n in fp.utils.walk(kd.tree, fp.F3.Directive)]
        bad = [t for t in dirs if re.match(r"^[!cC*]\$(\s|&|\d)", t)]
        if bad:
            fails.append(("sentinel_line_is_directive_node:" + rep["form"],
                          "handling disabled, process_directives: sentinel lines became Directive nodes: %r" % bad[:3], rep))
    # handling enabled TOGETHER WITH directive processing (comments kept): the two options are independent -- the hidden
    # statements are statements, no sentinel line is left behind as a Comment or Directive node
    both = fp.parse(src, std=std, rd=fp.reader(src, ignore_comments=False, free=not fixed, process_directives=True,
                                               include_omp_conditional_lines=True))
    if both.kind != "tree":
        fails.append(("enabled_with_directives_rejected:" + rep["form"],
                      "handling enabled + process_directives: %s line %s" % (both.kind, both.line), dict(rep, options="omp+directives")))
    else:
        left = [t for _, t in fp.comment_nodes(both.tree) if re.match(r"^[!cC*]\$(\s|&|\d)", t)]
        left += [str(n) for n in fp.utils.walk(both.tree, fp.F3.Directive) if re.match(r"^[!cC*]\$(\s|&|\d)", str(n))]
        nst = lambda t: sum(1 for n in fp.utils.walk(t) if isinstance(n, fp.utils.StmtBase))   # noqa
        if left or nst(both.tree) != nst(refP.tree):
            fails.append(("enabled_with_directives_differs:" + rep["form"],
                          "handling enabled + process_directives: %d statements (expected %d), sentinel lines left as "
                          "comment/directive nodes: %r" % (nst(both.tree), nst(refP.tree), left[:3]), dict(rep, options="omp+directives")))
    if not fixed:
        # genuine directives stay comments when handling is enabled and comments are kept
        k = fp.parse(src, std=std, rd=fp.reader(src, ignore_comments=False, free=True,
                                                include_omp_conditional_lines=True))
        if k.kind == "tree":
            want = sum(1 for l in lines if l.startswith("!$omp"))
            got = sum(1 for _, t in fp.comment_nodes(k.tree) if t.startswith("!$omp"))
            if want != got:
                fails.append(("omp_directive_not_comment", "%d '!$omp' lines, %d comment nodes" % (want, got), rep))
    return fails


# the hidden statement is the FIRST statement of the file (no PROGRAM statement / a unit opener / after comments only)
FIRST_HIDDEN = [
    ("!$ x = 1\ny = 2\nend\n", "   x = 1\ny = 2\nend\n"),
    ("! note\n\n!$ x = 1\ny = 2\nend\n", "! note\n\n   x = 1\ny = 2\nend\n"),
    ("!$ x = 1\nend\n", "   x = 1\nend\n"),
    ("!$ integer :: x\n!$ x = 1\nend program\n", "   integer :: x\n   x = 1\nend program\n"),
    ("!$ x = 1 + &\n!$ & 2\ny = 2\nend\n", "   x = 1 + &\n   & 2\ny = 2\nend\n"),
    ("!$ subroutine s()\n!$ end subroutine s\nsubroutine t()\nend subroutine t\n",
     "   subroutine s()\n   end subroutine s\nsubroutine t()\nend subroutine t\n"),
    ("!$ program p\nx = 1\n!$ end program p\n", "   program p\nx = 1\n   end program p\n"),
    ("  !$ x = 1\nend\n", "     x = 1\nend\n"),
]


def check_first_hidden(arg):
    k, std = arg
    import fp
    src, plain = FIRST_HIDDEN[k]
    rep = dict(std=std, source=src, first_hidden=k, form="free")
    ref = fp.parse(plain, std=std, ignore_comments=True)
    if ref.kind != "tree":
        return []
    try:
        on = pool.with_timeout(lambda a: fp.parse(a, std=std, rd=fp.reader(a, ignore_comments=True, free=True,
                                                                            include_omp_conditional_lines=True)), src, 20)
    except pool.Timeout:
        return [("enabled_first_statement_hidden_no_result", "no result within 20 s (handling enabled)", rep)]
    if on.kind != "tree":
        return [("enabled_rejected:first_hidden", "with handling enabled: %s line %s" % (on.kind, on.line), rep)]
    if fp.canon_repr(on.tree) != fp.canon_repr(ref.tree):
        return [("enabled_tree_differs:first_hidden", "tree(sentinel source, enabled) != tree(blanked source)", rep)]
    return []


def run(ctx):
    proof = common.leg_p(ctx, TARGETS)
    import reader_corr
    cases = []
    for k in range(ctx.n(120, 2500)):
        st, _ = gen.gen_program(ctx.seed * 73 + k, ("f2003", "f2008")[k % 2], size=0.4)
        rng = random.Random(ctx.seed + k)
        cand = [i for i, s in enumerate(st) if s.simple_exec and (s.label is None or s.label < 1000)]
        sel = set(rng.sample(cand, min(len(cand), 4))) if cand else set()
        if k % 2:
            cases.append((sentinelize_fixed(st, sel, rng), 0, 1, k % 4 // 2))
        else:
            cases.append((sentinelize_free(st, sel, rng), 1, 1, k % 4 // 2))
    corr = reader_corr.corr_cases(cases)
    corr["distinct"] = len(set(tuple(c[0]) for c in cases))
    corr["samples"] = [dict(lines=cases[0][0][:12])]
    jobs = [(("f2003", "f2008")[k % 2], ctx.seed * 79 + k // 2, k % 4) for k in range(ctx.n(200, 6000))]
    failures = []
    for job, (st, r) in zip(jobs, pool.pmap(check_one, jobs, chunksize=6)):
        if st != "ok":
            failures.append(("harness_error", r[:300], dict(job=job)))
        else:
            failures += [(s, d, dict(rep, job=list(job))) for s, d, rep in r]
    fjobs = [(k, std) for k in range(len(FIRST_HIDDEN)) for std in ("f2003", "f2008")]
    for job, (st, r) in zip(fjobs, pool.pmap(check_first_hidden, fjobs, chunksize=2)):
        if st != "ok":
            failures.append(("harness_error", r[:300], dict(job=job)))
        else:
            failures += r
    e2e = dict(cases=len(jobs) + len(fjobs), distinct=len(set(jobs)) + len(fjobs), failures=failures,
               rule="8 sources whose FIRST statement is hidden (no PROGRAM statement, unit openers, after comments; 20 s alarm); "
                    "handling enabled together with process_directives; generated programs, random subsets S of whole simple statements hidden behind the conditional "
                    "sentinel (free: '!$ ' with '!$ &' / '!$&' continuation and comment lines between; fixed: !$ c$ C$ "
                    "*$ in columns 1-2, labels in 3-5, continuation marks) plus genuine '!$omp' lines: "
                    "tree(enabled) == tree(P), tree(disabled, comments ignored) == tree(P minus S), '!$omp' stays a comment",
               samples=[dict(job=list(jobs[0]))])
    return common.finish(ctx, proof, corr, e2e, extra_assumptions=[
        "proved for the reader model: fixed-form reading with handling enabled = reading the blanked source line by "
        "line; sentinel lines are comments when disabled; the free-form initial sentinel becomes blanks and '!$omp' is "
        "left alone. The free-form continuation sentinel and whole-statement equality are correspondence + end-to-end."])


def replay(ctx, data):
    if "first_hidden" in data:
        return not check_first_hidden((data["first_hidden"], data.get("std", "f2003")))
    return not check_one(tuple(data["job"]))
