"""C19 -- the legacy statement-level parser (fparser1) round-trips its own output."""
import common
import gen1
import pool

TARGETS = ["Properties/C19.vo"]
DECL_FEATS = ("char_star", "kind_decl", "decl_char", "function", "type_def")


def regen(tree, fixed):
    return tree.tofortran(isfix=True) if fixed else str(tree)


def check_one(arg):
    seed, fixed, analyze = arg
    import one_util as U
    st, used = gen1.gen(seed)
    src = gen1.render(st, fixed)
    rep = dict(seed=seed, fixed=fixed, analyze=analyze, source=src, features=used)
    kw = dict(isfree=not fixed, isstrict=False, analyze=analyze)
    try:
        t1 = U.parse1(src, **kw)
    except Exception as e:   # noqa
        return [], "rejected:" + type(e).__name__, used
    if U.unparsed(t1):
        return [], "rejected:unparsed", used
    fails = []
    s1 = regen(t1, fixed)
    try:
        t2 = U.parse1(s1, **kw)
        bad = U.unparsed(t2)
    except Exception as e:   # noqa
        return [("regenerated_source_rejected", "%s: %s" % (type(e).__name__, str(e)[:200]), dict(rep, regenerated=s1))], "ok", used
    if bad:
        return [("regenerated_source_rejected", "unparsed statement %r" % (bad[0],), dict(rep, regenerated=s1))], "ok", used
    s2 = regen(t2, fixed)
    b1, b2 = U.body_lines(s1), U.body_lines(s2)
    if b1 != b2:
        d = [(x, y) for x, y in zip(b1, b2) if x != y][:2] or [("length", len(b1), len(b2))]
        fails.append(("second_round_differs", "str(parse1(str(parse1(P)))) differs: %r" % (d,), dict(rep, regenerated=s1)))
    a1, a2 = U.structure(t1), U.structure(t2)
    if [(d, c) for d, c, _ in a1] != [(d, c) for d, c, _ in a2]:
        fails.append(("block_structure_differs", "nesting of the re-parsed output differs", dict(rep, regenerated=s1)))
    # statements of P, one to one, expression text carried over
    j1 = U.body_lines(U.join_fixed(s1) if fixed else s1)
    if len(j1) != len(st):
        fails.append(("statement_count_differs", "%d statements in P, %d regenerated" % (len(st), len(j1)),
                      dict(rep, regenerated=s1)))
    else:
        for s, l in zip(st, j1):
            sq = U.squash(l)
            # type and kind selectors of declarations are normalised by design (REAL(8) -> REAL(KIND=8)): not expressions
            if s.feat in ("save", "data"):
                # attribute statements without expressions: the whole statement is carried over (the optional '::' aside)
                if U.squash(s.text).replace("::", "") != sq.replace("::", ""):
                    fails.append(("statement_text_changed:" + s.feat, "%r regenerated as %r" % (s.text, l),
                                  dict(rep, regenerated=s1)))
            for ch in ([] if s.feat in DECL_FEATS else U.expr_chunks(s.text)):
                if ch not in sq:
                    fails.append(("expression_text_changed:" + s.feat, "%r regenerated as %r" % (s.text, l),
                                  dict(rep, regenerated=s1)))
                    break
            if s.label is not None and not l.startswith(str(s.label) + " "):
                fails.append(("label_lost:" + s.feat, "%r regenerated as %r" % (s.free(), l), dict(rep, regenerated=s1)))
    # nesting ground truth known by construction
    depth = []
    stack = 0
    for s in st:
        n = 0 if not s.closes else (1 if s.closes is True else int(s.closes))
        depth.append(stack - max(0, n - 1))
        if s.opens:
            stack += 1
        stack -= n
    if len(a1) == len(st) and [d for d, _, _ in a1] != depth:
        k = next(i for i in range(len(st)) if a1[i][0] != depth[i])
        # informational only: the property compares the two rounds with each other, not with the source's nesting
        return fails, "ok:nesting_differs_from_source", used
    return fails, "ok", used


def run(ctx):
    proof = common.leg_p(ctx, TARGETS)
    jobs = [(ctx.seed * 307 + k // 4, k % 2 == 1, k % 4 >= 2) for k in range(ctx.n(600, 20000))]
    failures = []
    hist = {}
    for job, (st, r) in zip(jobs, pool.pmap(check_one, jobs, chunksize=10)):
        if st != "ok":
            failures.append(("harness_error", r[:300], dict(job=list(job))))
            continue
        fl, kind, used = r
        hist[kind] = hist.get(kind, 0) + 1
        failures += [(s, d, dict(rep, job=list(job))) for s, d, rep in fl]
    import one_corr
    cc = []
    for k in range(ctx.n(150, 4000)):
        st, _ = gen1.gen(ctx.seed * 311 + k // 2)
        cc.append((gen1.render(st, k % 2 == 1), k % 2 == 1))
    corr = one_corr.corr_cases(cc)
    corr["samples"] = [dict(source=cc[0][0], fixed=cc[0][1])]
    e2e = dict(cases=len(jobs), distinct=len(set(jobs)), failures=failures, acceptance=hist,
               rule="generated F77/F90-subset programs (units, declarations, labelled/shared-label/named DO, IF, SELECT, "
                    "WHERE, I/O, FORMAT, long expressions) x free/fixed x analyze: accepted programs only; regenerated "
                    "source accepted, second round identical (modulo indentation, blanks after labels, header), same "
                    "nesting, statements one to one with every expression text carried over",
               samples=[dict(job=list(jobs[0]))])
    return common.finish(ctx, proof, corr, e2e, extra_assumptions=[
        "proved (every statement-level oracle): the block matcher keeps every statement once and in order; the live "
        "Do.process_subitem variant is probed on every run and the other variant is refuted",
        "the per-statement parsers (regular expressions, tostr/tofortran of ~150 statement classes) are not modelled: "
        "that a regenerated statement is classified and printed as before is checked end to end on generated programs",
        "correspondence: the statement-level decisions are recorded from the real run (every statement object built, "
        "per block and item) and fed to the model as its oracle; compared is the complete nesting of the result"])


def replay(ctx, data):
    return not check_one(tuple(data["job"]))[0]
