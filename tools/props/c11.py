"""C11 -- comments are kept exactly once and in place, or ignored without effect."""
import random
import re

import common
import gen
import layout
import pool

TARGETS = ["Properties/C11.vo"]
DIRECTIVE_RES = [re.compile(p) for p in (r"\!\$[a-z]", r"c\$[a-z]", r"\*\$[a-z]", r"\!dir\$", r"cdir\$", r"\!gcc\$")]


def is_directive_text(t):
    low = t.lower()
    return any(p.match(low) for p in DIRECTIVE_RES)


def expected_sequence(L, nstmts):
    """('S', k) / ('C', text) in the order the regenerated source must have them"""
    seq = []
    cm = list(L.comments)
    ci = 0
    k = 0
    groups = {}
    for si, g in enumerate(L.stmt_of):
        groups.setdefault(g, []).append(si)
    for g, (first, last) in enumerate(L.stmt_span):
        while ci < len(cm) and cm[ci][0] < first:
            seq.append(("C", cm[ci][1]))
            ci += 1
        for si in groups[g]:
            seq.append(("S", si))
        while ci < len(cm) and cm[ci][0] <= last:
            seq.append(("C", cm[ci][1]))
            ci += 1
    while ci < len(cm):
        seq.append(("C", cm[ci][1]))
        ci += 1
    return seq


F5C_SRC = "! c0\na = 1\nend\n"


def check_one(arg):
    std, seed, v = arg
    import fp
    st, _ = gen.gen_program(seed, std, size=0.6)
    rng = random.Random(seed * 31 + v)
    L = layout.free_layout(st, rng, gen.USER_NAMES, comments=True, p_comment=0.35, p_break=0.3)
    src = L.text()
    canon = gen.render(st)
    ref = fp.parse(canon, std=std, ignore_comments=True)
    if ref.kind != "tree":
        return [("generator", "canonical program rejected", dict(source=canon))]
    fails = []
    rep = dict(std=std, source=src, canonical=canon)
    # (2) ignored comments have no effect
    ign = fp.parse(src, std=std, ignore_comments=True)
    if ign.kind != "tree" or fp.canon_repr(ign.tree) != fp.canon_repr(ref.tree):
        fails.append(("ignore_differs", "tree(P+K, ignore) != tree(P): %s" % ign.kind, rep))
    # (1) kept comments: once, in order, in place
    keep = fp.parse(src, std=std, ignore_comments=False)
    if keep.kind != "tree":
        fails.append(("keep_rejected", "valid program with comments rejected: %s line %s" % (keep.kind, keep.line), rep))
        return fails
    K = [c[1] for c in L.comments]
    got = [t for _, t in fp.comment_nodes(keep.tree)]
    if got != K:
        fails.append(("comment_nodes_differ", "comments(tree) != K: expected %r got %r" % (K[:8], got[:8]), rep))
    exp = expected_sequence(L, len(st))
    out_lines = [l for l in str(keep.tree).split("\n")]
    seq = []
    k = 0
    for l in out_lines:
        if l.lstrip().startswith("!"):
            seq.append(("C", l.strip()))
        elif l.strip() == "":
            seq.append(("C", ""))  # an empty comment (blank line) -- not produced by the layouts
        else:
            seq.append(("S", k))
            k += 1
    if seq != exp:
        i = next((j for j in range(min(len(seq), len(exp))) if seq[j] != exp[j]), min(len(seq), len(exp)))
        fails.append(("comment_position", "regenerated text has comments lost/duplicated/out of place at element %d: "
                      "expected %r got %r" % (i, exp[max(0, i - 2):i + 3], seq[max(0, i - 2):i + 3]), rep))
    # (3) directive processing only changes the node type of directive-form full-line comments
    dr = fp.parse(src, std=std, ignore_comments=False, process_directives=True)
    if dr.kind != "tree":
        fails.append(("directives_rejected", "rejected with process_directives: %s" % dr.kind, rep))
    else:
        nodes = fp.comment_nodes(dr.tree)
        # full-line comments (also those between continuation lines) can be directives, trailing ones cannot
        want = [("Directive" if (kind in ("full", "incont") and is_directive_text(t)) else "Comment", t)
                for (_, t, kind) in L.comments]
        if nodes != want:
            bad = [(a, b) for a, b in zip(nodes, want) if a != b][:3]
            inline = any(b[0] == "Comment" and a[0] == "Directive" for a, b in zip(nodes, want))
            fails.append(("directive_on_inline_comment" if inline and len(nodes) == len(want) and
                          all(a[1] == b[1] for a, b in zip(nodes, want)) else "directive_nodes_differ",
                          "Directive/Comment node kinds differ: %r" % bad, rep))
        if fp.canon_repr(dr.tree).replace("Directive(", "Comment(") != fp.canon_repr(keep.tree):
            fails.append(("directive_changes_tree", "tree with process_directives differs by more than node type", rep))
    # the same source through a FortranFileReader with the same options: the same trees (whatever is checked through a
    # string reader is checked through a file reader too)
    if v % 2 == 0:
        import os
        import shutil
        import tempfile
        d = tempfile.mkdtemp(prefix="verif_c11_")
        try:
            pth = os.path.join(d, "prog.f90")
            with open(pth, "w") as fh:
                fh.write(src)
            for tag, kw, want in (("ignore", dict(ignore_comments=True), ign), ("keep", dict(ignore_comments=False), keep),
                                  ("directives", dict(ignore_comments=False, process_directives=True), dr),
                                  ("directives_default_ignore", dict(process_directives=True), dr)):
                rdf = fp.FortranFileReader(pth, **kw)
                rdf.set_format(fp.FortranFormat(True, False))
                o = fp.parse(src, std=std, rd=rdf)
                if want.kind == "tree" and (o.kind != "tree" or fp.canon_repr(o.tree) != fp.canon_repr(want.tree)):
                    fails.append(("file_reader_differs:" + tag, "FortranFileReader(%s) gives %s, a tree different from the string "
                                  "reader's" % (kw, o.kind), dict(rep, reader="file", options=tag)))
        finally:
            shutil.rmtree(d, ignore_errors=True)
    return fails


def run(ctx):
    proof = common.leg_p(ctx, TARGETS)
    import engine_corr
    cc = []
    for k in range(ctx.n(10, 80)):
        std = ("f2003", "f2008")[k % 2]
        st, _ = gen.gen_program(ctx.seed * 5 + k, std, size=0.5)
        rng = random.Random(ctx.seed + k)
        L = layout.free_layout(st, rng, gen.USER_NAMES, comments=True, p_comment=0.4)
        cc.append((std, L.text(), dict(ignore_comments=False, process_directives=k % 3 == 0)))
    corr = engine_corr.corr_cases(cc)
    jobs = [(("f2003", "f2008")[k % 2], ctx.seed * 13 + k // 2, k % 3) for k in range(ctx.n(60, 3000))]
    res = pool.pmap(check_one, jobs, chunksize=4)
    failures = []
    for job, (st, r) in zip(jobs, res):
        if st != "ok":
            failures.append(("harness_error", r[:300], dict(job=job)))
        else:
            for sig, desc, rep in r:
                failures.append((sig, desc, dict(rep, job=list(job))))
    # recorded finding (same mechanism as C02 implicit_main_after_other_units_drops_them): comments in front of a
    # main program without PROGRAM statement are dropped by the Main_Program0 fall-back
    import fp
    ok = fp.parse(F5C_SRC, std="f2003", ignore_comments=False)
    if ok.kind == "tree" and "! c0" not in str(ok.tree):
        failures.append(("comment_before_implicit_main_lost", "recorded finding still present", dict(source=F5C_SRC)))
    # the statement catalogue with a comment line in front of every line and after the last one
    import catprod
    cj = [(("f2003", "f2008")[k % 2], b, src, "comment") for k, (b, src) in enumerate(catprod.sources(ctx.quick, ctx.seed))]
    ncat = 0
    for job, (st, r) in zip(cj, pool.pmap(catprod.check_insert, cj, chunksize=8)):
        if st != "ok":
            failures.append(("harness_error", r[:300], dict(job=list(job))))
        else:
            ncat += r[0]
            failures += r[1]
    e2e = dict(cases=len(jobs) + 1 + ncat, distinct=len(set(jobs)) + ncat, failures=failures, catalogue_programs=ncat,
               rule="generated programs x comment placements (full-line before/after/between units and inside every "
                    "construct, trailing, between continuation lines; texts with quotes, '!', '&', ';', directive "
                    "forms): comments(tree)==K in order, position in regenerated text, tree(P+K,ignore)==tree(P), "
                    "process_directives only retypes directive-form full-line comments; distinct = (std,seed,variant)",
               samples=[dict(job=list(jobs[0]))])
    return common.finish(ctx, proof, corr, e2e, extra_assumptions=[
        "reader half (comments met inside a continued statement are queued and delivered after it) is covered by "
        "the reader checks (C12/C04) and end-to-end here",
        "the effect of process_directives on the tree is checked end-to-end, not proved"])


def replay(ctx, data):
    import fp
    if "catalogue_insert" in data:
        import catprod
        return not catprod.check_insert((data.get("std", "f2003"), "", data["canonical"], data["catalogue_insert"]))[1]
    src, std = data["source"], data.get("std", "f2003")
    keep = fp.parse(src, std=std, ignore_comments=False)
    ign = fp.parse(src, std=std, ignore_comments=True)
    ref = fp.parse(data["canonical"], std=std, ignore_comments=True)
    return keep.kind == "tree" and ign.kind == "tree" and fp.canon_repr(ign.tree) == fp.canon_repr(ref.tree) \
        and not check_one(tuple(data["job"]))
