"""C13 -- INCLUDE resolution is transparent; unresolved includes are kept."""
import os
import random
import shutil
import re
import subprocess
import tempfile

import common
import gen
import pool

TARGETS = ["Properties/C13.vo"]


def make_split(st, rng, nfiles):
    """split the statement list into main + up to nfiles (possibly nested) include files at statement
    boundaries; returns (main_items, files) where items are ('s', k) | ('i', fid) and files: fid -> items"""
    n = len(st)
    files = {}
    fid = [0]

    def carve(items, depth):
        """replace a random run of plain statements of items by an include of a new file"""
        runs = [i for i, it in enumerate(items) if it[0] == "s"]
        if len(runs) < 3 or fid[0] >= nfiles:
            return items
        a = rng.randrange(0, len(items) - 1)
        b = rng.randrange(a + 1, min(len(items), a + 1 + max(2, len(items) // 2)) + 1)
        body = items[a:b]
        if not body:
            return items
        fid[0] += 1
        me = fid[0]
        if depth < 2 and rng.random() < 0.6:
            body = carve(body, depth + 1)
        files[me] = body
        return items[:a] + [("i", me)] + items[b:]

    items = [("s", k) for k in range(n)]
    for _ in range(nfiles):
        items = carve(items, 0)
    return items, files


# the blank between the keyword and the quoted name is optional, either quote will do, case is free
INCLUDE_SPELLINGS = ["include '%s'", "include'%s'", "INCLUDE \"%s\"", "Include   '%s'", "include\"%s\""]
_INC_RE = re.compile(r"include\s*(['\"])(.*?)\1\s*$", re.I)


def render_items(items, st, names):
    out = []
    for kind, k in items:
        if kind == "s":
            line = st[k].line("")
            cut = line.find(", ")
            if k % 2 == 0 and cut > 0 and line[:5].lower() in ("call ", "commo", "chara") and "'" not in line and '"' not in line:
                # a continued statement that starts in column one with a 'c': its trailing '&' is the only
                # free-form evidence of the file it ends up in
                out.append(line[:cut + 2] + "&")
                out.append("&" + line[cut + 2:])
            else:
                out.append(line)
        else:
            out.append(INCLUDE_SPELLINGS[k % len(INCLUDE_SPELLINGS)] % names[k])
    return "\n".join(out) + "\n"


def model_read(main, files):
    import reader_corr
    enc = lambda its: " ".join("%s%d" % it for it in its)  # noqa
    inp = ["IN %d %s" % (len(files), enc(main))] + ["%d %s" % (f, enc(its)) for f, its in files.items()]
    p = subprocess.run([reader_corr.SLDRIVER], input="\n".join(inp) + "\nQUIT\n", capture_output=True, text=True,
                       timeout=120)
    return p.stdout.strip().split()


def check_one(arg):
    std, seed, v = arg
    import fp
    from fparser.common.sourceinfo import get_source_info_str
    st, _ = gen.gen_program(seed, std, size=0.5)
    rng = random.Random(seed * 23 + v)
    nfiles = 1 + v % 3
    main, files = make_split(st, rng, nfiles)
    # include files WITHOUT any statement (empty, blank lines, comments only): reading goes on after the INCLUDE line
    hollow = {}
    for _ in range((v // 2) % 3):
        fid = max(list(files) + [0]) + 1
        files[fid] = []
        hollow[fid] = rng.choice(["", "! nothing here\n", "\n\n", "  ! an indented comment only\n", "! a\n! b\n"])
        host = main if not files or rng.random() < 0.6 else files[rng.choice([f for f in files if f not in hollow] or [fid])]
        if host is files.get(fid):
            host = main
        host.insert(rng.randrange(0, len(host) + 1), ("i", fid))
    names = {f: "part%d.inc" % f for f in files}
    canon = "\n".join(s.line("") for s in st) + "\n"
    ref = fp.parse(canon, std=std, ignore_comments=True)
    if ref.kind != "tree":
        return dict(fails=[("generator", "canonical program rejected", dict(source=canon))], skipped=0)
    texts = {f: (hollow[f] if f in hollow else render_items(its, st, names)) for f, its in files.items()}
    # stated hypothesis: every included file is detected as the same source form as its parent (free)
    if any(not get_source_info_str(t).is_free for f, t in texts.items() if f not in hollow) \
            or any(not its for f, its in files.items() if f not in hollow):
        return dict(fails=[], skipped=1)
    absent = set(rng.sample(sorted(files), 1)) if (v % 4 == 3 and files) else set()
    # the alphabetical order of the directory names is NOT the order the caller lists them in (half of the cases)
    pre = rng.choice([("a", "b", "c"), ("z", "m", "a"), ("m", "z", "b"), ("c", "b", "a")])
    base = tempfile.mkdtemp(prefix="verif_c13_")
    d1, d2, d3 = (os.path.join(base, "%s_dir%d" % (pre[k], k)) for k in range(3))
    for dd in (d1, d2, d3):
        os.mkdir(dd)
    fails = []
    try:
        # genuine files spread over the first two directories of the include path (an included file may include
        # a file that lives in ANOTHER directory of the path); decoys of the same name only in LATER directories
        dirs = [d1, d2, d3]
        for f, t in texts.items():
            if f in absent:
                continue
            k = rng.randrange(0, 2)
            with open(os.path.join(dirs[k], names[f]), "w") as fh:
                fh.write(t)
            if rng.random() < 0.5:
                with open(os.path.join(dirs[rng.randrange(k + 1, 3)], names[f]), "w") as fh:
                    fh.write("this is the wrong file @@@\n")
        msrc = render_items(main, st, names)
        rep = dict(std=std, main=msrc, files={names[f]: texts[f] for f in files}, absent=[names[f] for f in absent],
                   canonical=canon)
        # ---- model vs reader (item level): statement k <-> its text
        want = model_read(main, {f: its for f, its in files.items() if f not in absent})
        want = [("inc", names[int(w[1:])]) if w[0] == "i" else
                (st[int(w[1:])].text.strip(), st[int(w[1:])].label, st[int(w[1:])].name) for w in want]
        got = []
        rd = fp.FortranStringReader(msrc, include_dirs=[d1, d2, d3], ignore_comments=True)
        for it in rd:
            if _INC_RE.match(it.line):
                got.append(("inc", _INC_RE.match(it.line).group(2)))
            else:
                got.append((it.line, it.label, it.name))
        if got != want:
            i = next((j for j in range(min(len(got), len(want))) if got[j] != want[j]), min(len(got), len(want)))
            fails.append(("reader_stream_differs", "item %d: read %r, model/inlined %r" % (i, got[i:i + 3], want[i:i + 3]), rep))
        # ---- end to end
        for kind in ("string", "file"):
            if kind == "string":
                rdr = fp.FortranStringReader(msrc, include_dirs=[d1, d2, d3], ignore_comments=True)
            else:
                mp = os.path.join(d1, "main_program.f90")
                with open(mp, "w") as fh:
                    fh.write(msrc)
                rdr = fp.FortranFileReader(mp, include_dirs=[d1, d2, d3], ignore_comments=True)
            o = fp.parse(msrc, std=std, rd=rdr)
            if absent:
                # the INCLUDE line is kept as an include statement node at its position, if the source is valid with it
                if o.kind == "tree":
                    incs = [str(n) for n in fp.utils.walk(o.tree, fp.F3.Include_Stmt)]
                    wanted = ["INCLUDE '%s'" % names[f] for f in sorted(absent)]
                    if sorted(incs) != sorted(wanted):
                        if fp.utils.walk(o.tree, fp.F3.Main_Program0):
                            # the Main_Program0 fall-back drops what was matched before it (recorded under C02 as well)
                            fails.append(("unresolved_include_before_implicit_main_lost", "Include_Stmt nodes %r, expected %r"
                                          % (incs, wanted), rep))
                        else:
                            fails.append(("unresolved_include_lost:" + kind, "Include_Stmt nodes %r, expected %r" % (incs, wanted), rep))
                        continue
                    if any(w not in str(o.tree) for w in wanted):
                        fails.append(("unresolved_include_not_reemitted:" + kind, "INCLUDE line missing from str(tree)", rep))
                continue
            if o.kind != "tree":
                fails.append(("include_rejected:" + kind, "main+includes rejected: %s line %s" % (o.kind, o.line), rep))
            elif fp.canon_repr(o.tree) != fp.canon_repr(ref.tree):
                fails.append(("tree_differs:" + kind, "tree(main+includes) != tree(P)", rep))
            if kind == "file":
                os.unlink(mp)
    finally:
        shutil.rmtree(base, ignore_errors=True)
    return dict(fails=fails, skipped=0)


FRAG_PROBE = ("program p\n  integer :: i\n  real :: a(3)\n  do 10 i = 1, 3\ninclude 'lab.inc'\nend program p\n",
              "10 a(i) = a(i) * 2.0\n")


def run(ctx):
    proof = common.leg_p(ctx, TARGETS)
    jobs = [(("f2003", "f2008")[k % 2], ctx.seed * 83 + k // 2, k % 8) for k in range(ctx.n(120, 4000))]
    failures = []
    skipped = 0
    ncorr = 0
    dis = []
    for job, (st, r) in zip(jobs, pool.pmap(check_one, jobs, chunksize=4)):
        if st != "ok":
            failures.append(("harness_error", r[:300], dict(job=job)))
            continue
        skipped += r["skipped"]
        ncorr += 1 - r["skipped"]
        for s, d, rep in r["fails"]:
            if s == "reader_stream_differs":
                dis.append(dict(job=list(job), description=d))
            failures.append((s, d, dict(rep, job=list(job))))
    # recorded finding: an include file is format-detected on its own
    import fp
    d = tempfile.mkdtemp(prefix="verif_c13_p_")
    try:
        with open(os.path.join(d, "lab.inc"), "w") as fh:
            fh.write(FRAG_PROBE[1])
        o = fp.parse(FRAG_PROBE[0], std="f2003", rd=fp.FortranStringReader(FRAG_PROBE[0], include_dirs=[d]))
        if o.kind != "tree":
            failures.append(("include_file_detected_as_fixed_form", "recorded finding still present",
                             dict(main=FRAG_PROBE[0], file=FRAG_PROBE[1])))
    finally:
        shutil.rmtree(d, ignore_errors=True)
    # include files whose only free-form evidence is the trailing '&' of a statement that starts in column one with
    # c / C / * / a tab (every other line looks like a fixed-form comment or statement)
    for tag, body in (("call", "call subOne(xPos, &\n&yVal)\ncontinue\ncall subTwo\n"),
                      ("common", "COMMON /cmnBlk/ cmA, &\n  &cmB\n      real :: zLoc\n"),
                      ("character", "character(len = 8) :: cOne, &\n         cTwo\n"),
                      ("tab", "\txPos = 1.0 + &\n\t  2.0\n")):
        main = "program progMain\nreal :: xPos, yVal\ninclude 'crafted.inc'\nend program progMain\n"
        inl = main.replace("include 'crafted.inc'\n", body)
        d = tempfile.mkdtemp(prefix="verif_c13_c_")
        try:
            with open(os.path.join(d, "crafted.inc"), "w") as fh:
                fh.write(body)
            o = fp.parse(main, std="f2003", rd=fp.FortranStringReader(main, include_dirs=[d]))
            ref = fp.parse(inl, std="f2003")
            if ref.kind == "tree" and (o.kind != "tree" or fp.canon_repr(o.tree) != fp.canon_repr(ref.tree)):
                failures.append(("include_with_trailing_ampersand_evidence:" + tag,
                                 "main + include: %s, inlined text: tree" % o.kind, dict(main=main, file=body, crafted=tag)))
        finally:
            shutil.rmtree(d, ignore_errors=True)
    corr = dict(cases=ncorr, distinct=ncorr, disagreements=dis, skipped_outside_hypothesis=skipped,
                samples=[dict(job=list(jobs[0]))])
    e2e = dict(cases=len(jobs) + 1, distinct=len(set(jobs)), failures=[f for f in failures if f[0] != "reader_stream_differs"],
               rule="generated programs split at statement boundaries into a main text and 1-3 (possibly nested) "
                    "include files, genuine files first on the include path and decoys of the same name later, string "
                    "and file readers: tree(main+includes) == tree(P); with one file absent: Include_Stmt nodes exactly "
                    "there and re-emitted; the item-level model (textual inlining) is compared with the items the "
                    "real reader delivers; splits whose files are not detected as free form are outside the stated "
                    "hypothesis (counted as skipped)",
               samples=[dict(job=list(jobs[1]))])
    return common.finish(ctx, proof, corr, e2e, extra_assumptions=[
        "the INCLUDE model is item-level (items opaque, file system a function); the general splice theorem (reading "
        "== textual inlining for every nest) is proved for the model and the model is checked against the real reader "
        "on every split",
        "hypothesis: each included file is detected as the same source form as its parent"])


def replay(ctx, data):
    if "job" not in data:
        return False          # crafted probes are re-run by the check itself
    r = check_one(tuple(data["job"]))
    return not r["fails"]
