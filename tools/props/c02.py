"""C02 -- regenerated source preserves the program's content token for token."""
import random

import re

import common
import gen
import layout
import lexer
import pool

TARGETS = ["Properties/C02.vo"]

F5_SRC = "subroutine subTwo\nend subroutine subTwo\nxPos = 1\nend\n"
SUFFIX_SRC = "function f(a) bind(c) result(r)\nreal :: a, r\nr = a\nend function f\n"
BOZ_SRC = "program progMain\ninteger :: kk = z'1f' + b'01' + o'17'\nend program progMain\n"
F8_SRC = "program progMain\nprint *, 'F2PY_EXPR_TUPLE_1', (xPos+1)*2\nend program progMain\n"


def long_expr_program(rng, n):
    terms = ["aVec(iCnt + %d)" % k for k in range(1, n + 1)]
    prods = ["(xPos + %d.0)" % k for k in range(1, n + 1)]
    return ("program progMain\n  yVal = %s\n  zz = %s\n  call subOne(%s)\nend program progMain\n"
            % (" + ".join(terms), " * ".join(prods), ", ".join(terms)))


def check_one(arg):
    std, src, canon, keep = arg
    import fp
    o = fp.parse(src, std=std, ignore_comments=not keep)
    if o.kind != "tree":
        return ("rejected", o.kind, str(o.exc)[:200])
    out = str(o.tree)
    a = lexer.normalise(lexer.tokens(canon), gen.USER_NAMES)
    b = lexer.normalise(lexer.tokens(out), gen.USER_NAMES)
    d = lexer.diff(a, b)
    if d:
        return ("tokens", d[0], d[1], d[2])
    return ("ok",)


_WORD = re.compile(r"[A-Za-z_$][A-Za-z0-9_$]*|[0-9]+")
_LIT = re.compile(r"'(?:[^'\n]|'')*'|\"(?:[^\"\n]|\"\")*\"")


def check_catalogue(arg):
    """whatever parses: the regenerated text holds no internal placeholder and every word (name, keyword, digit string)
    of the source -- compared on the texts with everything but letters, digits, '_' and '$' removed, so that keyword
    spacing and case do not matter"""
    std, src = arg
    import fp
    o = fp.parse(src, std=std, ignore_comments=True)
    if o.kind != "tree":
        return []
    out = str(o.tree)
    rep = dict(std=std, source=src, regenerated=out, catalogue=True)
    fails = []
    if "F2PY_" in out.upper() and "F2PY_" not in src.upper():
        fails.append(("placeholder_in_regenerated_text", "an internal placeholder reached the regenerated text: %r"
                      % [l for l in out.split("\n") if "F2PY_" in l.upper()][:2], rep))
    # character literals are reproduced character for character, each as often as it was written
    lits_src = sorted(_LIT.findall(re.sub(r"(?m)^\s*!.*$", "", src)))
    lits_out = sorted(_LIT.findall(out))
    if lits_src != lits_out and "!" not in re.sub(_LIT, "", src):
        fails.append(("character_literal_changed", "character literals of the source %r, of the regenerated text %r"
                      % ([x for x in lits_src if x not in lits_out][:3], [x for x in lits_out if x not in lits_src][:3]), rep))
    squeezed = re.sub(r"[^a-z0-9_$]", "", out.lower())
    code = re.sub(r"'[^']*'|\"[^\"]*\"", " ", src)
    code = re.sub(r"(?m)!.*$", " ", code)          # comments are dropped by this parse
    lost = [w for w in _WORD.findall(code) if w.lower() not in squeezed]
    if lost:
        fails.append(("word_lost_in_regenerated_text", "words of the source missing from the regenerated text: %r" % lost[:4], rep))
    return fails


def run(ctx):
    proof = common.leg_p(ctx, TARGETS)
    # ---- Leg C (i): SplitLine model vs implementation
    import splitline_corr
    lines = splitline_corr.gen_lines(ctx.rng, ctx.n(1500, 40000))
    triples = []
    for k, l in enumerate(lines):
        stop = [None, None, "'", '"'][k % 4] if k % 3 == 0 else None
        triples.append((l, stop, k % 5 == 0))
    sl = splitline_corr.run(triples)
    dis = [d for ok, d in sl if not ok]
    # ---- Leg C (i'): key bookkeeping of string_replace_map, model vs implementation
    rml = splitline_corr.rm_lines(ctx.rng, ctx.n(400, 12000))
    rmd = splitline_corr.run_replace_map(rml)
    # ---- Leg C (ii): engine model vs implementation on whole programs
    import engine_corr
    cc = []
    for k in range(ctx.n(6, 60)):
        std = ("f2003", "f2008")[k % 2]
        st, _ = gen.gen_program(ctx.seed * 3 + k, std, size=0.6)
        cc.append((std, gen.render(st), dict(ignore_comments=k % 3 == 0)))
    cc.append(("f2003", F5_SRC, dict(ignore_comments=True)))
    ec = engine_corr.corr_cases(cc)
    corr = dict(cases=len(triples) + ec["cases"], distinct=len(set(l for l, _, _ in triples)) + ec["distinct"],
                splitline_cases=len(triples), engine=ec and {k: v for k, v in ec.items() if k != "disagreements"},
                replace_map_cases=len(rml),
                disagreements=dis[:20] + rmd[:10] + ec["disagreements"],
                samples=[dict(line=triples[7][0], stop=triples[7][1], lower=triples[7][2])])
    # ---- Leg C (iii): character-level model of string_replace_map and of the separator-cutting matchers
    import srm_corr
    sr = srm_corr.corr(ctx.seed + 7, ctx.n(40, 600))
    corr["cases"] += sr["cases"]
    corr["distinct"] += sr["cases"]
    corr["disagreements"] += sr["disagreements"]
    corr["separator_level"] = {k: v for k, v in sr.items() if k not in ("disagreements", "samples")}
    # ---- Leg E: tokens(str(parse(layout(P)))) == tokens(P)
    jobs = []
    nprog = ctx.n(40, 1500)
    for k in range(nprog):
        std = ("f2003", "f2008")[k % 2]
        st, _ = gen.gen_program(ctx.seed * 11 + k, std, size=0.7 if ctx.quick else 1.0)
        canon = gen.render(st)
        jobs.append((std, canon, canon, False))
        for v in range(ctx.n(2, 4)):
            rng = random.Random(ctx.seed * 100003 + k * 10 + v)
            keep = v % 2 == 1
            L = layout.free_layout(st, rng, gen.USER_NAMES, case=("keep", "upper", "lower", "keep")[v % 4],
                                   comments=True)
            jobs.append((std, L.text(), canon, keep))
    for n in (9, 10, 11, 13):
        src = long_expr_program(ctx.rng, n)
        jobs.append(("f2003", src, src, False))
    res = pool.pmap(check_one, [(a, b, c, d) for a, b, c, d in jobs], chunksize=8)
    failures = []
    for (std, src, canon, keep), (st, r) in zip(jobs, res):
        if st != "ok":
            failures.append(("harness_error", r[:300], dict(std=std, source=src)))
        elif r[0] == "rejected":
            failures.append(("valid_program_rejected", "a layout of a valid program was rejected: %s %s" % (r[1], r[2]),
                             dict(std=std, source=src, keep_comments=keep, canonical=canon)))
        elif r[0] == "tokens":
            failures.append(("token_mismatch", "token %d differs: source ...%s... regenerated ...%s..." % (r[1], r[2], r[3]),
                             dict(std=std, source=src, keep_comments=keep, canonical=canon)))
    # known-finding streams, kept apart
    for sig, src, canon in (("implicit_main_after_other_units_drops_them", F5_SRC, F5_SRC),
                            ("placeholder_shaped_text_in_source", F8_SRC, F8_SRC)):
        st, r = pool._wrap((check_one, ("f2003", src, canon, False)))
        if st == "ok" and r[0] != "ok":
            failures.append((sig, "recorded finding still present: %r" % (r,), dict(std="f2003", source=src, canonical=canon)))
    import fp
    ob = fp.parse(BOZ_SRC, std="f2003")
    if ob.kind == "tree" and "'1f'" not in str(ob.tree):
        failures.append(("boz_digits_case_folded", "recorded finding still present: %r" % str(ob.tree).split("\n")[1],
                         dict(std="f2003", source=BOZ_SRC)))
    osf = fp.parse(SUFFIX_SRC, std="f2003")
    if osf.kind == "tree" and "bind(c)result(r)" not in str(osf.tree).lower().replace(" ", ""):
        failures.append(("function_suffix_order_normalised", "recorded finding still present: %r" % str(osf.tree).split("\n")[0],
                         dict(std="f2003", source=SUFFIX_SRC)))
    import catalogue
    cat = catalogue.sources()
    cj = [(("f2003", "f2008")[k % 2], src) for k, src in enumerate(cat if not ctx.quick else cat[ctx.seed % 2::2])]
    for job, (st, r) in zip(cj, pool.pmap(check_catalogue, cj, chunksize=16)):
        failures += r if st == "ok" else [("harness_error", r[:300], dict(job=list(job)))]
    e2e = dict(cases=len(jobs) + 4 + len(cj), distinct=len(set(j[1] for j in jobs)) + len(cj), programs=nprog, failures=failures,
               catalogue_programs=len(cj),
               rule="generated valid programs x free-form layouts (continuation at token boundaries and inside "
                    "literals, leading '&' or not, blank/comment lines, trailing comments, ';' joins, keyword case), "
                    "comments dropped and kept: normalise(tokens(str(parse(layout)))) == normalise(tokens(canonical)) "
                    "with an independent lexer; normalisations: keyword/dotted-operator case, exponent-letter case, "
                    "'::', empty SUBROUTINE parentheses; names and character literals exact; "
                    "distinct = distinct source texts",
               samples=[dict(std=jobs[3][0], source=jobs[3][1][:600])])
    return common.finish(ctx, proof, corr, e2e, extra_assumptions=[
        "statement text -> str(statement) for non-expression statements is not modelled (leaf oracle / printer); "
        "it is covered by the end-to-end token comparison only",
        "string_replace_map / StringReplaceDict.__call__ are exercised end-to-end (long expressions with 9-13 "
        "parenthesised groups included), the proved laws cover splitquote and splitparen"])


def replay(ctx, data):
    if data.get("catalogue"):
        return not check_catalogue((data.get("std", "f2003"), data["source"]))
    r = check_one((data.get("std", "f2003"), data["source"], data.get("canonical", data["source"]),
                   data.get("keep_comments", False)))
    return r[0] == "ok"
