"""C03 -- expression parse trees encode Fortran precedence and associativity."""
import random

import common
import pool

TARGETS = ["Properties/C03.vo"]
F1_SIG = "defined_binary_op_followed_by_dotted_token"


def make(job):
    """job -> parenthesised (conforming) tree, or for kind 'raw' a tree WITHOUT the required parentheses"""
    import expr_corr as X
    kind = job[0]
    if kind == "shape":
        _, nops, idx, seed = job
        sh = SHAPES(nops)[idx]
        return X.paren(X.fill(sh, random.Random(seed))), True
    if kind == "rand":
        _, seed, depth = job
        rng = random.Random(seed)
        return X.paren(X.fill(X.random_shape(rng, depth), rng)), True
    if kind == "wide":
        # 10-14 bracketed groups at ONE nesting level: a sum of products (or an .or. of .and.s) of groups
        _, seed = job
        rng = random.Random(seed)
        n = rng.randrange(10, 15)
        lo, hi = rng.choice([(X.OAdd, X.OMul), (X.OOr, X.OAnd), (X.OCat, X.OCat), (X.OAdd, X.OAdd)])
        groups = [rng.choice([("a", "arr(i+%d)" % k), ("a", "f(x, y-%d)" % k),
                              ("p", ("b", X.OAdd, "+", ("a", "a%d" % k), ("a", "b%d" % k)))]) for k in range(n)]
        e, term = None, groups[0]
        for g in groups[1:]:
            if rng.random() < 0.5 and lo != hi:
                term = ("b", hi, rng.choice(X.SPELL[hi])[0], term, g)
            else:
                e = term if e is None else ("b", lo, rng.choice(X.SPELL[lo])[0], e, term)
                term = g
        e = term if e is None else ("b", lo, rng.choice(X.SPELL[lo])[0], e, term)
        return X.paren(e), True
    if kind == "lex":
        # names whose tail, written next to a sign and an integer, reads like a real constant with an exponent that
        # also occurs in the expression on its own ('1e-3 + x1e-3' is (1e-3 + x1e) - 3)
        _, idx, rep = job
        return X.paren(LEX_TREES()[idx]), True
    if kind == "raw":
        _, seed, depth = job
        rng = random.Random(seed)
        return X.fill(X.random_shape(rng, depth), rng), False
    raise ValueError(kind)


_lex = []


def LEX_TREES():
    import expr_corr as X
    if not _lex:
        A = lambda t: ("a", t)   # noqa
        for n, sg, i, c in (("x1e", "-", "3", "1e-3"), ("y2d", "+", "5", "2d+5"), ("a1E", "-", "3", "1E-3"), ("p_2d", "-", "2", "2d-2"),
                            ("x3e", None, "5", "3e5"), ("e1e", None, "5", "1e5"), ("q1e", "-", "3", "1e-3_8")):
            tail = A(n + i) if sg is None else ("b", X.OAdd, sg, A(n), A(i))
            for op, cls in (("+", X.OAdd), ("-", X.OAdd), ("*", X.OMul), ("/", X.OMul), ("//", X.OCat), ("==", X.ORel), (".and.", X.OAnd)):
                _lex.append(("b", cls, op, A(c), tail))
                _lex.append(("b", cls, op, tail, A(c)))
                _lex.append(("b", X.OAdd, "+", ("b", cls, op, A(c), A("f(%s)" % c)), tail))
    return _lex


_shapes = {}


def SHAPES(n):
    import expr_corr as X
    if n not in _shapes:
        _shapes[n] = list(X.shapes(n))
    return _shapes[n]


_model = []


def check_one(job):
    import expr_corr as X
    if not _model:
        _model.append(X.ExprModel())
    e, conforming = make(job)
    # the spelling of the expression: blanks between all tokens / none / upper-case operators / random blanks
    style = (hash(str(job)) if False else sum(ord(c) for c in str(job))) % 4
    try:
        r = X.compare(e, _model[0], style=style, rng=random.Random(str(job)))
    except Exception:   # noqa
        _model.clear()
        raise
    out = dict(text=r["text"], agree=r["model"] == r["real"], model=r["model"], real=r["real"], fails=[])
    if conforming:
        if r["real"] != r["expected"]:
            sig = F1_SIG if not r["ok_side"] else ("rejected" if r["real"] in ("N",) or r["real"].startswith("other") else "grouping_differs")
            out["fails"].append((sig, "parse(%r) is %s, the standard's grouping is %s" % (r["text"], r["real"], r["expected"])))
    return out


def stmt_check(arg):
    """the same through a full program: the right-hand side of an assignment statement"""
    import expr_corr as X
    import fp
    seed, depth = arg
    rng = random.Random(seed)
    e = X.paren(X.fill(X.random_shape(rng, depth), rng))
    if not X.defop_ok(e):
        return []
    txt = X.text(e)
    src = "program p\n  v = %s\nend program p\n" % txt
    o = fp.parse(src, std=("f2003", "f2008")[seed % 2])
    I = X.Interner()
    exp = X.bracketed(e, I)
    if o.kind != "tree":
        return [("rejected_in_program", "%s: %s" % (o.kind, txt), dict(source=src))]
    st = fp.utils.walk(o.tree, fp.F3.Assignment_Stmt)
    got = X.real_bracketed(st[0].items[2], I) if st else "no assignment statement"
    if got != exp:
        return [("grouping_differs_in_program", "rhs of %r is %s, expected %s" % (txt, got, exp), dict(source=src))]
    return []


def run(ctx):
    proof = common.leg_p(ctx, TARGETS)
    jobs = []
    for nops in ((1, 2) if ctx.tier == "quick" else (1, 2, 3)):
        for idx in range(len(SHAPES(nops))):
            for rep in range(2 if nops < 3 else 1):
                jobs.append(("shape", nops, idx, ctx.seed * 1009 + idx * 2 + rep))
    if ctx.tier == "quick":
        n3 = len(SHAPES(3))
        for idx in ctx.rng.sample(range(n3), 1500):
            jobs.append(("shape", 3, idx, ctx.seed + idx))
    for k in range(ctx.n(1500, 40000)):
        jobs.append(("rand", ctx.seed * 1013 + k, 3 + k % 4))
    for k in range(ctx.n(200, 4000)):
        jobs.append(("wide", ctx.seed * 1019 + k))
    for k in range(ctx.n(500, 10000)):
        jobs.append(("raw", ctx.seed * 1021 + k, 2 + k % 3))
    for idx in range(len(LEX_TREES())):
        for rep in range(4):
            jobs.append(("lex", idx, rep))
    failures, dis = [], []
    nconf = 0
    for job, (st, r) in zip(jobs, pool.pmap(check_one, jobs, chunksize=50)):
        if st != "ok":
            failures.append(("harness_error", r[:300], dict(job=list(job))))
            continue
        if not r["agree"]:
            dis.append(dict(job=list(job), text=r["text"], model=r["model"], real=r["real"]))
        for sig, desc in r["fails"]:
            failures.append((sig, desc, dict(job=list(job), expression=r["text"])))
        nconf += job[0] != "raw"
    sjobs = [(ctx.seed * 1031 + k, 2 + k % 4) for k in range(ctx.n(300, 6000))]
    for job, (st, r) in zip(sjobs, pool.pmap(stmt_check, sjobs, chunksize=20)):
        if st != "ok":
            failures.append(("harness_error", r[:300], dict(stmt_job=list(job))))
        else:
            failures += [(s, d, dict(rep, stmt_job=list(job))) for s, d, rep in r]
    corr = dict(cases=len(jobs), distinct=len(set(jobs)), disagreements=dis,
                samples=[dict(job=list(jobs[5]))],
                rule="token-level model (extracted) vs Fortran2003.Expr on the same expression: same fully-bracketed tree "
                     "or both reject; includes %d renderings WITHOUT the required parentheses" % sum(j[0] == "raw" for j in jobs))
    e2e = dict(cases=nconf + len(sjobs), distinct=nconf + len(sjobs), failures=failures,
               rule="all operator trees with <= %d operators (bounded-exhaustive; all 9 binary and 3 unary classes, "
                    "spellings and operands drawn per tree), random trees to depth 6, chains with 10-14 bracketed "
                    "groups; operands: names, integer/real/exponent/kind literals, array elements, sections, calls, "
                    "components, character literals containing operators, .TRUE./.FALSE.; rendered with the minimal "
                    "parentheses: fully-parenthesised(parse(render(E))) == fully-parenthesised(E); also as the "
                    "right-hand side of an assignment in a full program" % (2 if ctx.tier == "quick" else 3),
               samples=[dict(job=list(jobs[0]))])
    return common.finish(ctx, proof, corr, e2e, extra_assumptions=[
        "proved (token level, unbounded depth/size): the rule chain recorded from the live classes returns the tree of "
        "every conforming expression under the side condition defop_ok; refuted without it (finding F1)",
        "the lexical layer (operator regular expressions with look-around, exponent-literal tokenisation, blanks, "
        "string_replace_map) is not modelled: model == implementation is checked on every explored expression"])


def replay(ctx, data):
    if "stmt_job" in data:
        return not stmt_check(tuple(data["stmt_job"]))
    r = check_one(tuple(data["job"]))
    return r["agree"] and not [f for f in r["fails"] if f[0] != F1_SIG]
