"""C12 -- the reader delivers each logical line once, in order, with exact line numbers."""
import os
import random
import shutil
import tempfile

import common
import gen
import layout
import pool

TARGETS = ["Properties/C12.vo"]

TOK = ["ab", "X1", " ", "  ", "=", "(", ")", ",", "'s t'", "\"q\"", "'it''s'", "'a;b'", "'c!d'", "'e&f'", ":", "+", "*"]


def fuzz_case(rng, k):
    def stmt():
        head = rng.choice(["", "", "10 ", "20 nm: ", "nm: "]) + rng.choice(["ab", "X1", "call"])
        return head + "".join(rng.choice(TOK + ["1", "2.0e-3"]) for _ in range(rng.randrange(0, 7)))
    lines = []
    for _ in range(rng.randrange(1, 5)):
        r = rng.random()
        if r < 0.15:
            lines.append(rng.choice(["", "  ", "! c", "  !c 'q", "!$omp x", "!$ ab = 1"]))
        elif r < 0.3:
            lines.append(stmt() + rng.choice([" &", "&", " & ! c"]))
            lines.append(rng.choice(["", " ", "  &", "&", "!$ &", "!$&"]) + stmt())
        elif r < 0.45:
            lines.append(stmt() + rng.choice(["; ", ";", " ; "]) + stmt())
        elif r < 0.55:
            lines.append(stmt() + " ! trailing 'c")
        elif r < 0.6:
            lines.append(rng.choice(["#define X 1", "  #if A", "#define Y \\"]))
        elif r < 0.64:
            lines += ["#define Z(a) \\", "  (a) + \\", "  1" + rng.choice(["", " \\"])]
        else:
            lines.append(rng.choice(["", " ", "   "]) + stmt())
    return (lines, 1, int(k % 3 == 0), k % 2)


def expected_items(st, L, keep):
    """what the reader must deliver for a free-form layout (text modulo blanks outside literals)"""
    exp = []
    cm = list(L.comments)
    ci = 0
    groups = {}
    for si, g in enumerate(L.stmt_of):
        groups.setdefault(g, []).append(si)
    for g, (first, last) in enumerate(L.stmt_span):
        while ci < len(cm) and cm[ci][0] < first:
            if keep:
                exp.append(("C", cm[ci][1], (cm[ci][0], cm[ci][0])))
            ci += 1
        for si in groups[g]:
            s = st[si]
            exp.append(("L", layout.squeeze(s.text), s.label, s.name, (first, last)))
        while ci < len(cm) and cm[ci][0] <= last:
            if keep:
                exp.append(("C", cm[ci][1], (cm[ci][0], cm[ci][0])))
            ci += 1
    while ci < len(cm):
        if keep:
            exp.append(("C", cm[ci][1], (cm[ci][0], cm[ci][0])))
        ci += 1
    return exp


def observed_items(src, keep, free=True, via_file=False, omp=False):
    import fp
    if via_file:
        import os, shutil, tempfile
        d = tempfile.mkdtemp(prefix="verif_c12_")
        try:
            pth = os.path.join(d, "prog.f90")
            with open(pth, "w", newline="") as fh:
                fh.write(src)
            rd = fp.FortranFileReader(pth, ignore_comments=not keep, include_omp_conditional_lines=omp)
            rd.set_format(fp.FortranFormat(free, False))
            return _items_of(rd)
        finally:
            shutil.rmtree(d, ignore_errors=True)
    rd = fp.reader(src, ignore_comments=not keep, free=free, include_omp_conditional_lines=omp)
    return _items_of(rd)


def _items_of(rd):
    import fp
    out = []
    for it in rd:
        if isinstance(it, fp.readfortran.Comment):
            out.append(("C", it.comment, tuple(it.span)))
        else:
            out.append(("L", layout.squeeze(it.line), it.label, it.name, tuple(it.span)))
    return out


def check_layout(arg):
    std, seed, v = arg
    st, _ = gen.gen_program(seed, std, size=0.5)
    rng = random.Random(seed * 101 + v)
    keep = v % 2 == 1
    if v % 4 == 3:
        # fixed form: expected text squeezed, label, name, span
        L = layout.fixed_layout(st, rng, gen.USER_NAMES, wrap=rng.choice([72, 40, 30, 66]), contc=rng.choice("&1$x+"),
                                cmt=rng.choice("Cc*!"), label_style=rng.choice(["left", "right", "mid", "spaced"]), comments=True)
        import props.c05 as c05mod  # noqa
        if not c05mod.no_blank_before_wrap(L):
            return []      # blanks at the end of a continued fixed-form line are stripped: recorded under C05 (F10)
        got = [x for x in observed_items(L.text(), keep, free=False) if x[0] == "L"]
        exp = [("L", layout.squeeze(s.text), s.label, s.name, L.stmt_span[k]) for k, s in enumerate(st)]
        form = "fixed"
    else:
        L = layout.free_layout(st, rng, gen.USER_NAMES, case=("keep", "upper", "lower")[v % 3], comments=True, p_comment=0.3)
        got = observed_items(L.text(), keep)
        exp = expected_items(st, L, keep)
        if v % 3 != 0:
            low = lambda x: (x[0], x[1].lower() if x[0] == "L" else x[1]) + tuple(x[2:])  # noqa
            got, exp = [low(x) for x in got], [low(x) for x in exp]
        form = "free"
    if v % 2 == 0:
        # the reader's source kind must not matter: the same text through a file reader
        omp = v % 4 == 0          # every reader option must reach the reader whatever its source is
        a = observed_items(L.text(), keep, free=(form == "free"), omp=omp)
        b = observed_items(L.text(), keep, free=(form == "free"), via_file=True, omp=omp)
        if a != b:
            i = next((j for j in range(min(len(a), len(b))) if a[j] != b[j]), min(len(a), len(b)))
            return [("file_reader_items_differ:" + form, "item %d: string reader %r file reader %r" % (i, a[i:i + 2], b[i:i + 2]),
                     dict(source=L.text(), keep_comments=keep, form=form, reader="file"))]
    if got != exp:
        i = next((j for j in range(min(len(got), len(exp))) if got[j] != exp[j]), min(len(got), len(exp)))
        return [("items_differ:" + form, "item %d: expected %r got %r" % (i, exp[i:i + 2], got[i:i + 2]),
                 dict(source=L.text(), keep_comments=keep, form=form))]
    return []


def stream_of(rd):
    import fp
    out = []
    while True:
        it = rd.get_item()
        if it is None:
            break
        out.append((type(it).__name__, it.line, getattr(it, "label", None), getattr(it, "name", None), tuple(it.span)))
    return out


def check_walk(arg):
    """random read-ahead-and-restore walks over a reader, optionally with two levels of INCLUDE"""
    seed, with_include, keep = arg
    import fp
    rng = random.Random(seed)
    st, _ = gen.gen_program(seed, "f2003", size=0.5)
    lines = gen.render(st).split("\n")[:-1]
    d = None
    try:
        if with_include and len(lines) > 12:
            d = tempfile.mkdtemp(prefix="verif_c12_")
            a, b = sorted(rng.sample(range(2, len(lines) - 2), 2))
            inner = lines[a:b]
            mid = max(1, len(inner) // 2)
            with open(os.path.join(d, "inner.inc"), "w") as f:
                f.write("\n".join(inner[mid:]) + "\n")
            with open(os.path.join(d, "outer.inc"), "w") as f:
                f.write("\n".join(inner[:mid] + ["include 'inner.inc'"]) + "\n")
            src = "\n".join(lines[:a] + ["include 'outer.inc'"] + lines[b:]) + "\n"
            mk = lambda: fp.FortranStringReader(src, include_dirs=[d], ignore_comments=not keep)  # noqa
        else:
            src = "\n".join(lines) + "\n"
            mk = lambda: fp.FortranStringReader(src, ignore_comments=not keep)  # noqa
        ref = stream_of(mk())
        rd = mk()
        got = []
        fails = []
        while True:
            k = rng.randrange(1, 6)
            ahead = []
            for _ in range(k):
                it = rd.get_item()
                if it is None:
                    break
                ahead.append(it)
            if not ahead:
                break
            keepn = rng.randrange(0, len(ahead) + 1)
            for it in reversed(ahead[keepn:]):
                rd.put_item(it)
            for it in ahead[:keepn]:
                got.append((type(it).__name__, it.line, getattr(it, "label", None), getattr(it, "name", None),
                            tuple(it.span)))
            if keepn == 0 and rng.random() < 0.5:
                it = rd.get_item()
                if it is None:
                    break
                got.append((type(it).__name__, it.line, getattr(it, "label", None), getattr(it, "name", None),
                            tuple(it.span)))
        if got != ref:
            i = next((j for j in range(min(len(got), len(ref))) if got[j] != ref[j]), min(len(got), len(ref)))
            fails.append(("pushback_changes_stream" + (":include" if with_include else ""),
                          "item %d after read-ahead/restore walk: expected %r got %r" % (i, ref[i:i + 2], got[i:i + 2]),
                          dict(seed=seed, with_include=with_include, keep_comments=keep, source=src)))
        return fails
    finally:
        if d:
            shutil.rmtree(d, ignore_errors=True)


def run(ctx):
    proof = common.leg_p(ctx, TARGETS)
    import reader_corr
    rng = ctx.rng
    cases = []
    for k in range(ctx.n(60, 1500)):
        st, _ = gen.gen_program(ctx.seed * 43 + k, ("f2003", "f2008")[k % 2], size=0.5)
        r2 = random.Random(ctx.seed + k)
        if k % 3 == 2:
            L = layout.fixed_layout(st, r2, gen.USER_NAMES, wrap=r2.choice([72, 40, 30, 66]), contc=r2.choice("&1$x+"),
                                    cmt=r2.choice("Cc*!"), label_style=r2.choice(["left", "right", "mid", "spaced"]))
            cases.append((L.lines, 0, 0, k % 2))
        else:
            L = layout.free_layout(st, r2, gen.USER_NAMES, comments=True, p_comment=0.3, p_break=0.4)
            cases.append((L.lines, 1, 0, k % 2))
    for k in range(ctx.n(800, 30000)):
        cases.append(fuzz_case(rng, k))
    corr = reader_corr.corr_cases(cases)
    corr["distinct"] = len(set(tuple(c[0]) for c in cases))
    corr["samples"] = [dict(lines=cases[-1][0], free=cases[-1][1], omp=cases[-1][2], ignore_comments=cases[-1][3])]
    jobs = [(("f2003", "f2008")[k % 2], ctx.seed * 47 + k // 4, k % 8) for k in range(ctx.n(160, 6000))]
    failures = []
    for job, (st, r) in zip(jobs, pool.pmap(check_layout, jobs, chunksize=8)):
        if st != "ok":
            failures.append(("harness_error", r[:300], dict(job=job)))
        else:
            failures += [(s, d, dict(rep, job=list(job))) for s, d, rep in r]
    wjobs = [(ctx.seed * 53 + k, k % 3 == 0, k % 2 == 0) for k in range(ctx.n(90, 3000))]
    for job, (st, r) in zip(wjobs, pool.pmap(check_walk, wjobs, chunksize=4)):
        if st != "ok":
            failures.append(("harness_error", r[:300], dict(job=job)))
        else:
            failures += [(s, d, dict(rep, walk_job=list(job))) for s, d, rep in r]
    e2e = dict(cases=len(jobs) + len(wjobs), distinct=len(set(jobs)) + len(set(wjobs)), failures=failures,
               rule="(a) generated statement lists with known free-form / fixed-form layout: items(reader) == expected "
                    "(text modulo blanks outside literals, label, construct name, span, comments in order); "
                    "(b) random walks that read 1-5 items ahead and push a suffix back, over plain sources and over "
                    "sources with two levels of INCLUDE: the delivered stream equals that of an undisturbed reader",
               samples=[dict(job=list(jobs[2])), dict(walk_job=list(wjobs[0]))])
    return common.finish(ctx, proof, corr, e2e, extra_assumptions=[
        "the reader model is character-level for non-strict free and fixed form; pyf/f77/strict modes, f2py "
        "directives and tab expansion are not modelled",
        "';' splitting is modelled on the original text (the code splits the tokenised text): equal up to blanks "
        "next to parentheses, compared modulo blanks",
        "proved: push-back laws for every reader state; the layout-to-items theorem is not proved, it is the "
        "correspondence (model == reader on every layout tried) plus the end-to-end comparison"])


def replay(ctx, data):
    if "walk_job" in data:
        return not check_walk(tuple(data["walk_job"]))
    return not check_layout(tuple(data["job"]))
