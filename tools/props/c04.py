"""C04 -- free-form layout does not change the parse."""
import itertools
import random

import common
import gen
import layout
import pool

TARGETS = ["Properties/C04.vo"]

# small statements whose layout space is enumerated exhaustively (segments; literal bodies marked)
SMALL = [
    ("x = a + b", None, None),
    ("s = 'ab cd'", None, None),
    ("call sub('it''s', \"q\")", 10, None),
    ("do i = 1, n", None, "lp"),
    ("if (a > b) c = 'x!y'", 20, None),
    ("print *, 'a&b', x", None, None),
]
BETWEEN = [[], [""], ["! note"], ["!it's & more"], ["", "  ! c", ""]]


def enum_layouts(text, label, name, quick):
    """all layouts with one break point of a small statement: every token boundary and every position
    inside every literal x leading '&' or not x what is between the lines x trailing comment x indent"""
    toks = layout.split_tokens(text)
    head = ("%d " % label if label is not None else "") + ("%s: " % name if name else "")
    cuts = [(t[0], False) for t in toks[1:]]
    for (a, b, kd) in toks:
        if kd == "str":
            q = text[a]
            p = a + 1
            cuts.append((p, True))
            while p < b - 1:
                p += 2 if (text[p] == q and p + 1 < b - 1 and text[p + 1] == q) else 1
                cuts.append((p, True))
    out = []
    for (p, inlit) in cuts:
        for lead in ((True,) if inlit else (True, False)):
            for bt in BETWEEN:
                for trail in (None, "! t'c"):
                    for ind in ((0, 3) if quick else (0, 2, 7)):
                        l1 = " " * ind + head + text[:p] + ("&" if inlit else " &")
                        if trail and not inlit:
                            l1 += " " + trail
                        l2 = " " * ind + ("&" if lead else "") + text[p:]
                        out.append([l1] + bt + [l2])
    return out


def check_small(arg):
    idx, quick = arg
    import fp
    text, label, name = SMALL[idx]
    head = ("%d " % label if label is not None else "") + ("%s: " % name if name else "")
    ref = [(it.line, it.label, it.name) for it in fp.reader(head + text + "\n", free=True)]
    fails = []
    n = 0
    for lines in enum_layouts(text, label, name, quick):
        n += 1
        src = "\n".join(lines) + "\n"
        got = [(layout.squeeze(it.line), it.label, it.name) for it in fp.reader(src, free=True)]
        exp = [(layout.squeeze(t), l, nm) for t, l, nm in ref]
        if got != exp:
            fails.append(("small_statement_layout", "layout %r gives %r, one-line form gives %r" % (lines, got, exp),
                          dict(source=src, reference=head + text)))
    return n, fails


def check_program(arg):
    std, seed, v = arg
    import fp
    st, _ = gen.gen_program(seed, std, size=0.6)
    canon = gen.render(st)
    ref = fp.parse(canon, std=std, ignore_comments=True)
    if ref.kind != "tree":
        return [("generator", "canonical program rejected", dict(source=canon))]
    rng = random.Random(seed * 131 + v)
    case = ("keep", "upper", "lower", "names")[v % 4]
    L = layout.free_layout(st, rng, gen.USER_NAMES, case=case, comments=True, p_comment=0.3, p_break=0.5, p_join=0.3)
    o = fp.parse(L.text(), std=std, ignore_comments=True)
    rep = dict(std=std, source=L.text(), canonical=canon, features=L.features)
    if o.kind != "tree":
        return [("layout_rejected", "a layout of a valid program is rejected: %s at line %s" % (o.kind, o.line), rep)]
    a, b = fp.canon_repr(o.tree), fp.canon_repr(ref.tree)
    if case != "keep":
        a, b = a.lower(), b.lower()
    if a != b:
        i = next(k for k in range(min(len(a), len(b))) if a[k] != b[k])
        return [("tree_differs", "tree(L(P)) != tree(canonical(P)) near %r vs %r" % (a[max(0, i - 60):i + 40],
                                                                                      b[max(0, i - 60):i + 40]), rep)]
    return []


# adjacent keywords: the blank between them is layout -- any number of blanks, and none at all where the standard makes
# the blank optional (Fortran 2003 3.3.1 / Fortran 2008 3.3.2.2), must give the tree of the one-blank spelling
COMPOUND = {
    "block_data": ("f2003", True, "{block@data} bd\ncommon /c/ x\nend block data bd\n"),
    "end_block_data": ("f2003", True, "block data bd\ncommon /c/ x\n{end@block@data} bd\n"),
    "double_precision_decl": ("f2003", True, "program p\n{double@precision} :: d\nend program p\n"),
    "double_precision_old": ("f2003", True, "program p\n{double@precision} d, e\nend program p\n"),
    "double_precision_function": ("f2003", True, "{double@precision} function f(x)\nf = x\nend function f\n"),
    "else_if": ("f2003", True, "program p\nif (a) then\nx = 1\n{else@if} (b) then\nx = 2\nend if\nend program p\n"),
    "else_where": ("f2003", True, "program p\nwhere (a > 0)\na = 1\n{else@where}\na = 2\nend where\nend program p\n"),
    "end_associate": ("f2003", True, "program p\nassociate (z => x)\ny = z\n{end@associate}\nend program p\n"),
    "end_do": ("f2003", True, "program p\ndo i = 1, 2\nx = 1\n{end@do}\nend program p\n"),
    "end_enum": ("f2003", True, "program p\nenum, bind(c)\nenumerator :: a\n{end@enum}\nend program p\n"),
    "end_file": ("f2003", True, "program p\n{end@file} 10\nend program p\n"),
    "end_forall": ("f2003", True, "program p\nforall (i = 1:2)\na(i) = 1\n{end@forall}\nend program p\n"),
    "end_function": ("f2003", True, "function f(x)\nf = x\n{end@function} f\n"),
    "end_if": ("f2003", True, "program p\nif (a) then\nx = 1\n{end@if}\nend program p\n"),
    "end_interface": ("f2003", True, "module m\ninterface\nsubroutine s()\nend subroutine s\n{end@interface}\nend module m\n"),
    "end_module": ("f2003", True, "module m\n{end@module} m\n"),
    "end_program": ("f2003", True, "program p\n{end@program} p\n"),
    "end_select": ("f2003", True, "program p\nselect case (i)\ncase (1)\nx = 1\n{end@select}\nend program p\n"),
    "end_subroutine": ("f2003", True, "subroutine s()\n{end@subroutine} s\n"),
    "end_type": ("f2003", True, "module m\ntype t\ninteger :: i\n{end@type} t\nend module m\n"),
    "end_where": ("f2003", True, "program p\nwhere (a > 0)\na = 1\n{end@where}\nend program p\n"),
    "go_to": ("f2003", True, "program p\n{go@to} 10\n10 continue\nend program p\n"),
    "if_go_to": ("f2003", True, "program p\nif (a) {go@to} 10\n10 continue\nend program p\n"),
    "in_out": ("f2003", True, "subroutine s(a)\nreal, intent({in@out}) :: a\nend subroutine s\n"),
    "select_case": ("f2003", True, "program p\n{select@case} (i)\ncase (1)\nx = 1\nend select\nend program p\n"),
    "select_type": ("f2003", True, "subroutine s(o)\nclass(*) :: o\n{select@type} (o)\ntype is (integer)\nx = 1\nend select\nend subroutine s\n"),
    "end_block": ("f2008", True, "program p\nblock\nx = 1\n{end@block}\nend program p\n"),
    "end_critical": ("f2008", True, "program p\ncritical\nx = 1\n{end@critical}\nend program p\n"),
    "end_submodule": ("f2008", True, "module m\nend module m\nsubmodule (m) sm\n{end@submodule} sm\n"),
    "error_stop": ("f2008", False, "program p\n{error@stop}\nend program p\n"),
    "do_concurrent": ("f2008", False, "program p\n{do@concurrent} (i = 1:2)\nx = 1\nend do\nend program p\n"),
    "do_while": ("f2003", False, "program p\n{do@while} (a)\nx = 1\nend do\nend program p\n"),
    "type_is": ("f2003", False, "subroutine s(o)\nclass(*) :: o\nselect type (o)\n{type@is} (integer)\nx = 1\nend select\nend subroutine s\n"),
    "class_default": ("f2003", False, "subroutine s(o)\nclass(*) :: o\nselect type (o)\n{class@default}\nx = 1\nend select\nend subroutine s\n"),
    "case_default": ("f2003", False, "program p\nselect case (i)\n{case@default}\nx = 1\nend select\nend program p\n"),
    "implicit_none": ("f2003", False, "program p\n{implicit@none}\nend program p\n"),
    "module_procedure": ("f2003", False, "module m\ninterface g\n{module@procedure} s\nend interface g\ncontains\nsubroutine s()\nend subroutine s\nend module m\n"),
    "real_function": ("f2003", False, "{real@function} f(x)\nf = x\nend function f\n"),
    "recursive_subroutine": ("f2003", False, "{recursive@subroutine} s()\nend subroutine s\n"),
    "use_intrinsic": ("f2003", False, "program p\n{use,@intrinsic@::} iso_c_binding\nend program p\n"),
}


def compound_probe(name):
    """(signature, description, replay) for every blank count whose tree differs from the one-blank spelling"""
    import re
    import fp
    std, optional, tpl = COMPOUND[name]
    mk = lambda nb: re.sub(r"\{([^}]*)\}", lambda m: m.group(1).replace("@", " " * nb), tpl)   # noqa
    ref = fp.parse(mk(1), std=std)
    out = []
    if ref.kind != "tree":
        # the canonical spelling itself is rejected (IN OUT): recorded under the same signature
        return [("extra_blanks_in_compound_keyword:" + name, "the one-blank spelling is rejected: %s" % ref.kind,
                 dict(std=std, source=mk(1)))]
    for nb in ((0, 2, 5) if optional else (2, 5)):
        o = fp.parse(mk(nb), std=std)
        if o.kind != "tree" or fp.canon_repr(o.tree) != fp.canon_repr(ref.tree):
            out.append(("extra_blanks_in_compound_keyword:" + name,
                        "%d blanks between the keywords: %s instead of the tree of the one-blank spelling" % (nb, o.kind),
                        dict(std=std, source=mk(nb), reference=mk(1))))
    return out


KNOWN_PROBES = [
    ("extra_blanks_in_compound_keyword:end_block_data", "block data bd\ncommon /c/ x\nend  block    data bd\n", "f2003"),
    ("extra_blanks_in_compound_keyword:error_stop", "program p\nerror    stop\nend program p\n", "f2008"),
    ("extra_blanks_in_compound_keyword:in_out", "subroutine s(a)\nreal, intent(in    out) :: a\nend subroutine s\n", "f2003"),
]


NAME_COLON = ("program p\nouter &\n  : do i = 1, 2\nx = 1\nend do outer\nend program p\n",
              "program p\nouter: do i = 1, 2\nx = 1\nend do outer\nend program p\n")


def name_colon_probe(_):
    """recorded finding, kept apart: a continuation between a construct name and its colon"""
    import fp
    o = fp.parse(NAME_COLON[0], std="f2003", ignore_comments=True)
    ref = fp.parse(NAME_COLON[1], std="f2003", ignore_comments=True)
    if ref.kind == "tree" and (o.kind != "tree" or fp.canon_repr(o.tree) != fp.canon_repr(ref.tree)):
        return [("construct_name_cut_from_its_colon", "'outer &' / ': do ...' gives %s, not the tree of 'outer: do ...'" % o.kind,
                 dict(std="f2003", source=NAME_COLON[0], canonical=NAME_COLON[1], catalogue_layout="name_colon"))]
    return []


def run(ctx):
    proof = common.leg_p(ctx, TARGETS)
    import reader_corr
    cases = []
    for idx, (text, label, name) in enumerate(SMALL):
        for lines in enum_layouts(text, label, name, ctx.quick):
            cases.append((lines, 1, 0, 0))
    for k in range(ctx.n(40, 800)):
        st, _ = gen.gen_program(ctx.seed * 59 + k, ("f2003", "f2008")[k % 2], size=0.5)
        L = layout.free_layout(st, random.Random(ctx.seed + k), gen.USER_NAMES, comments=True, p_comment=0.3,
                               p_break=0.5, p_join=0.3, case=("keep", "upper", "lower")[k % 3])
        cases.append((L.lines, 1, 0, k % 2))
    corr = reader_corr.corr_cases(cases)
    corr["distinct"] = len(set(tuple(c[0]) for c in cases))
    corr["samples"] = [dict(lines=cases[5][0])]
    failures = []
    nsmall = 0
    for (st, r) in pool.pmap(check_small, [(i, ctx.quick) for i in range(len(SMALL))], chunksize=1):
        if st != "ok":
            failures.append(("harness_error", r[:300], {}))
        else:
            nsmall += r[0]
            failures += r[1]
    jobs = [(("f2003", "f2008")[k % 2], ctx.seed * 61 + k // 4, k % 4) for k in range(ctx.n(200, 8000))]
    for job, (st, r) in zip(jobs, pool.pmap(check_program, jobs, chunksize=6)):
        if st != "ok":
            failures.append(("harness_error", r[:300], dict(job=job)))
        else:
            failures += [(s, d, dict(rep, job=list(job))) for s, d, rep in r]
    # the statement catalogue in six layouts each (blanks removed / widened between tokens, compound keywords glued,
    # keyword case, a continuation break at a random token boundary): the tree of the plain spelling
    import catprod
    cj = [(("f2003", "f2008")[k % 2], b, src, ctx.seed * 1000 + k) for k, (b, src) in enumerate(catprod.sources(ctx.quick, ctx.seed))]
    ncat = 0
    for job, (st, r) in zip(cj, pool.pmap(catprod.check_layout, cj, chunksize=8)):
        if st != "ok":
            failures.append(("harness_error", r[:300], dict(job=list(job))))
        else:
            ncat += r[0]
            failures += r[1]
    for st, r in pool.pmap(name_colon_probe, [0], chunksize=1):
        failures += r if st == "ok" else [("harness_error", r[:300], {})]
    ncomp = 0
    for name, (st, r) in zip(sorted(COMPOUND), pool.pmap(compound_probe, sorted(COMPOUND), chunksize=4)):
        ncomp += 3
        if st != "ok":
            failures.append(("harness_error", r[:300], dict(probe=name)))
        else:
            failures += [(s, d, dict(rep, probe=name)) for s, d, rep in r]
    e2e = dict(cases=nsmall + len(jobs) + ncomp + ncat, distinct=nsmall + len(set(jobs)) + ncomp + ncat, exhaustive_small=nsmall,
               catalogue_layouts=ncat,
               failures=failures,
               rule="(a) six small statements: EVERY single break point (each token boundary, each position inside "
                    "each literal) x leading '&' x 5 kinds of lines in between x trailing comment x indentation: "
                    "same items as the one-line form; (b) generated programs in random layouts (continuations, "
                    "comments, ';' joins, indentation, keyword case, the case of every occurrence of a name chosen on its own): "
                    "tree(L(P)) == tree(canonical(P)) up to case when the case was changed; (c) %d pairs of adjacent keywords written with 0 (where the standard makes "
                    "the blank optional), 2 and 5 blanks: the tree of the one-blank spelling; (d) ~300 less usual statement forms x "
                    "4 unit wrappers x 6 layouts (tokens tight / wide, glued compound keywords, upper / lower case, one continuation "
                    "break): the tree of the plain spelling up to case" % len(COMPOUND),
               samples=[dict(job=list(jobs[0]))])
    return common.finish(ctx, proof, corr, e2e, extra_assumptions=[
        "proved for the reader model: exact joining of continuation pieces free of quotes/'!'/'&', transparency of "
        "comment and blank lines inside a continuation for every quote state; pieces with literals, ';' splitting and "
        "label/name extraction are tied by the correspondence and checked end-to-end",
        "tree equality additionally needs the statement matchers to be insensitive to blanks outside literals "
        "(measured end-to-end; three recorded exceptions)"])


def replay(ctx, data):
    import fp
    if "catalogue_layout" in data:
        a = fp.parse(data["source"], std=data.get("std", "f2003"), ignore_comments=True)
        b = fp.parse(data["canonical"], std=data.get("std", "f2003"), ignore_comments=True)
        return a.kind == "tree" and b.kind == "tree" and fp.canon_repr(a.tree).lower() == fp.canon_repr(b.tree).lower()
    if "job" in data:
        return not check_program(tuple(data["job"]))
    if "probe" in data:
        return not compound_probe(data["probe"])
    if "reference" in data:
        ref = [(layout.squeeze(it.line), it.label, it.name) for it in fp.reader(data["reference"] + "\n", free=True)]
        got = [(layout.squeeze(it.line), it.label, it.name) for it in fp.reader(data["source"], free=True)]
        return ref == got
    return fp.parse(data["source"], std=data.get("std", "f2003")).kind == "tree"
