"""C08 -- ill-nested constructs and unbalanced parentheses are never accepted."""
import re
import common
import gen
import pool

TARGETS = ["Properties/C08.vo"]

# opener deletions that provably leave a valid program (decided from the construct kind alone):
#  - PROGRAM statement: the unit becomes a main program without program-stmt
#  - labelled DO whose terminal statement is a labelled CONTINUE / action statement: the terminal
#    statement is an ordinary labelled statement once the DO is gone
VALID_AFTER_OPENER_DELETION = {"program", "do_action", "do_shared"}


def opener_deletion_leaves_valid(stmts, i):
    s = stmts[i]
    if s.kind in VALID_AFTER_OPENER_DELETION:
        return True
    if s.kind == "do_label":
        closer = [t for t in stmts if t.cid == s.cid and t.role == "close"]
        return bool(closer) and closer[0].kind == "continue_term"
    return False


def outside_literal_positions(text):
    """indices of characters of text that are outside character literals"""
    pos = []
    q = None
    for i, ch in enumerate(text):
        if q:
            if ch == q:
                q = None
            continue
        if ch in "'\"":
            q = ch
            continue
        pos.append(i)
    return pos


def mutants(stmts, rng, quick):
    """yield (signature_feature, description, mutated stmts)"""
    out = []
    n = len(stmts)
    for i, s in enumerate(stmts):
        if s.role == "open":
            if not opener_deletion_leaves_valid(stmts, i):
                out.append(("delete_opener:" + s.kind, "delete line %d %r" % (i + 1, s.line("")), stmts[:i] + stmts[i + 1:]))
            # surplus opener: duplicate the opener right after itself (needs a second END)
            if s.kind not in ("program", "module", "submodule", "block_data", "subroutine", "function",
                              "iface_sub", "derived_type", "interface"):
                d = s.copy()
                d.name = None
                d.label = None
                if s.kind not in ("do_label", "do_shared", "do_action"):
                    out.append(("surplus_opener:" + s.kind, "duplicate opener line %d %r" % (i + 1, s.line("")),
                                stmts[:i + 1] + [d] + stmts[i + 1:]))
        if s.role == "close":
            out.append(("delete_closer:" + s.kind, "delete line %d %r" % (i + 1, s.line("")), stmts[:i] + stmts[i + 1:]))
            # a lone END PROGRAM is itself a (empty) main program, so a surplus one leaves a
            # syntactically valid sequence of program units: excluded
            if s.kind not in ("continue_term", "continue_shared", "action_term", "end_do_label", "end_program"):
                d = s.copy()
                out.append(("surplus_closer:" + s.kind, "duplicate closer line %d %r" % (i + 1, s.line("")),
                            stmts[:i + 1] + [d] + stmts[i + 1:]))
            # END name games
            words = s.text.split()
            opener = [t for t in stmts if t.cid == s.cid and t.role == "open"]
            if s.text.lower().startswith("end") and opener:
                op = opener[0]
                if op.name:                       # named construct: wrong name / missing name
                    w = s.copy()
                    w.text = s.text.replace(op.name, "wrongN")
                    if w.text != s.text:
                        out.append(("wrong_end_name:" + s.kind, "line %d %r -> %r" % (i + 1, s.text, w.text),
                                    stmts[:i] + [w] + stmts[i + 1:]))
                elif s.kind in ("end_subroutine", "end_function", "end_module", "end_program", "end_type",
                                "end_submodule", "end_block_data", "end_interface") and len(words) >= 3 \
                        and "(" not in words[-1]:
                    w = s.copy()
                    w.text = " ".join(words[:-1] + ["wrongN"])
                    out.append(("wrong_end_name:" + s.kind, "line %d %r -> %r" % (i + 1, s.text, w.text),
                                stmts[:i] + [w] + stmts[i + 1:]))
                elif s.kind in ("end_if", "end_do", "end_select", "end_where", "end_forall", "end_associate",
                                "end_block", "end_critical") and len(words) == 2:
                    w = s.copy()
                    w.text = s.text + " extraN"
                    out.append(("surplus_end_name:" + s.kind, "line %d %r -> %r" % (i + 1, s.text, w.text),
                                stmts[:i] + [w] + stmts[i + 1:]))
    # ---- a surplus END of a program unit / subprogram inside an executable construct
    for i, s in enumerate(stmts):
        if s.role == "open" and s.kind in ("if_construct", "do_block", "do_while", "select_case", "select_type",
                                           "select", "where_construct", "forall_construct", "associate",
                                           "block_construct", "critical", "do_concurrent"):
            for endtxt in ("end subroutine", "end function", "end", "end program"):
                d = s.copy()
                d.role, d.kind, d.name, d.label, d.text = "plain", "surplus_unit_end", None, None, endtxt
                out.append(("surplus_unit_end_inside_construct:" + endtxt.replace(" ", "_"),
                            "insert %r after line %d %r" % (endtxt, i + 1, s.line("")),
                            stmts[:i + 1] + [d] + stmts[i + 1:]))
    # ---- an END statement of the wrong kind (the construct is not terminated by its own END)
    END_SWAP = {"end if": "end do", "end do": "end if", "end select": "end if", "end where": "end do",
                "end forall": "end where", "end associate": "end block", "end block": "end associate",
                "end critical": "end if", "end subroutine": "end function", "end function": "end subroutine",
                "end module": "end program", "end type": "end interface", "end interface": "end type",
                "end enum": "end type"}
    for i, s in enumerate(stmts):
        if s.role == "close" and s.label is None:
            low = " ".join(s.text.lower().split())
            two = " ".join(low.split()[:2])
            if two in END_SWAP:
                w = s.copy()
                w.text = " ".join(END_SWAP[two].split() + s.text.split()[2:])
                out.append(("wrong_end_keyword:" + s.kind, "line %d %r -> %r" % (i + 1, s.text, w.text),
                            stmts[:i] + [w] + stmts[i + 1:]))
    # ---- a construct name on an intermediate statement (ELSE, ELSE IF, CASE, type guard, ELSEWHERE) that is not
    #      the name of its construct: the statement claims to belong to another construct (ill-nested)
    for i, s in enumerate(stmts):
        if s.role != "mid" or s.kind in ("contains", "type_contains"):
            continue
        op = [t for t in stmts if t.cid == s.cid and t.role == "open"]
        if not op:
            continue
        words = s.text.split()
        if op[0].name and words[-1] == op[0].name:
            w = s.copy()
            w.text = " ".join(words[:-1] + ["wrongN"])
            out.append(("wrong_mid_name:" + s.kind, "line %d %r -> %r" % (i + 1, s.text, w.text),
                        stmts[:i] + [w] + stmts[i + 1:]))
        elif not op[0].name:
            w = s.copy()
            w.text = s.text + " extraN"
            out.append(("surplus_mid_name:" + s.kind, "line %d %r -> %r" % (i + 1, s.text, w.text),
                        stmts[:i] + [w] + stmts[i + 1:]))
    # (Outside the property as stated, hence not checked: a second ELSE / CASE DEFAULT / CONTAINS in one construct
    #  and ELSE before ELSE IF are accepted by the pinned parser.)
    # parentheses, per statement that has any: the first '(' and the last ')' deleted, each of them doubled,
    # plus one random deletion and one random doubling
    for i, s in enumerate(stmts):
        pos = outside_literal_positions(s.text)
        pp = [p for p in pos if s.text[p] in "()"]
        if not pp:
            continue
        dels = {pp[0], pp[-1], rng.choice(pp)}
        dbls = {pp[0], pp[-1], rng.choice(pp)}
        for p in sorted(dels):
            d = s.copy()
            d.text = s.text[:p] + s.text[p + 1:]
            out.append(("delete_paren:" + (s.kind or s.role), "line %d: %r -> %r" % (i + 1, s.text, d.text),
                        stmts[:i] + [d] + stmts[i + 1:]))
        for p in sorted(dbls):
            a = s.copy()
            a.text = s.text[:p] + s.text[p] + s.text[p:]
            out.append(("double_paren:" + (s.kind or s.role), "line %d: %r -> %r" % (i + 1, s.text, a.text),
                        stmts[:i] + [a] + stmts[i + 1:]))
    return out


HEADERS = ["function f(x) bind(c) result(r)\nf = x\nend function f\n", "function f(x) result(r) bind(c)\nr = x\nend function f\n",
           "function f(x) bind(c, name = 'q') result(r)\nr = x\nend function f\n", "subroutine s(a, b) bind(c)\nend subroutine s\n",
           "subroutine s(a) bind(c, name = 'q')\nend subroutine s\n", "integer(kind = 4) function f(x) result(r)\nr = x\nend function f\n",
           "character(len = 3) function f()\nf = 'a'\nend function f\n", "pure real(8) function f(x)\nf = x\nend function f\n",
           "recursive function f(x) result(r)\nr = x\nend function f\n", "subroutine s()\nend subroutine s\n",
           "function f()\nf = 1\nend function f\n", "subroutine s(*, a)\nend subroutine s\n",
           "submodule (m) sm\nend submodule sm\n", "submodule (m:p) sm\nend submodule sm\n",
           "module procedure mp\nend procedure mp\n"]


def with_comments(src):
    """the same source with a full-line comment in front of every line"""
    out = []
    for k, l in enumerate(src.split("\n")[:-1]):
        out.append("! note %d" % k)
        out.append(l)
    return "\n".join(out) + "\n"


def check_one(arg):
    std, src, keep = arg
    import fp
    if keep:
        o = fp.parse(with_comments(src), std=std, ignore_comments=False)
    else:
        o = fp.parse(src, std=std, ignore_comments=True)
    return o.kind


def run(ctx):
    proof = common.leg_p(ctx, TARGETS)
    import engine_corr
    nprog = ctx.n(8, 150)
    cases = []     # (sig, desc, std, src)
    for k in range(nprog):
        std = ("f2003", "f2008")[k % 2]
        st, _ = gen.gen_program(ctx.seed * 7 + k, std, size=0.7 if ctx.quick else 1.0)
        for sig, desc, m in mutants(st, ctx.rng, ctx.quick):
            cases.append((sig, desc, std, gen.render(m)))
    # catalogue: EVERY parenthesis of every entry (less usual statement forms, unit headers with both optional
    # suffix clauses) deleted and doubled; an entry takes part when it parses intact
    import catalogue
    ncat = 0
    cat = [(b, w) for k, b in enumerate(catalogue.BODIES) for w in [catalogue.WRAPS[k % 3]]] + [(None, h) for h in HEADERS]
    for k, (b, w) in enumerate(cat):
        std = ("f2003", "f2008")[k % 2]
        text = b if b is not None else w.split("\n")[0]
        frame = w if b is not None else "%s\n" + w.split("\n", 1)[1]
        if check_one((std, frame % text, False)) != "tree":
            continue
        pos = [p for p in outside_literal_positions(text) if text[p] in "()"]
        first = re.sub(r"\W+", "_", text.lower()).strip("_")[:28]
        for p in pos:
            for what, t in (("delete_paren", text[:p] + text[p + 1:]), ("double_paren", text[:p] + text[p] + text[p:])):
                ncat += 1
                cases.append(("%s:cat:%s" % (what, first), "%r -> %r" % (text, t), std, frame % t))
    # ---- Leg C: model vs implementation on a sample of the structural mutants (not the paren ones:
    #      parentheses are inside statements, i.e. leaf-oracle territory)
    structural = [c for c in cases if not c[0].startswith(("delete_paren", "double_paren"))]
    sample = structural if len(structural) <= ctx.n(120, 1500) else ctx.rng.sample(structural, ctx.n(120, 1500))
    corr = engine_corr.corr_cases([(c[2], c[3], dict(ignore_comments=True)) for c in sample])
    # ---- Leg E: every mutant must be rejected
    # every mutant twice: comments dropped, and with a comment line in front of every line and comments kept
    jobs = [(c, keep) for c in cases for keep in (False, True)
            if not (keep and c[0].startswith(("delete_paren", "double_paren")))]
    res = pool.pmap(check_one, [(c[2], c[3], keep) for c, keep in jobs], chunksize=8)
    failures = []
    hist = {}
    for ((sig, desc, std, src), keep), (st, kind) in zip(jobs, res):
        if st != "ok":
            failures.append(("harness_error", kind[:300], dict(std=std, source=src)))
            continue
        hist[sig.split(":")[0]] = hist.get(sig.split(":")[0], 0) + 1
        if kind == "tree" or kind == "none":
            failures.append((sig + (":comments_kept" if keep else ""), "accepted although ill-nested/unbalanced: " + desc,
                             dict(std=std, source=with_comments(src) if keep else src, keep_comments=keep,
                                  mutation=desc, expected="an exception", observed=kind)))
    e2e = dict(cases=len(jobs), distinct=len(set(c[3] for c in cases)), failures=failures,
               mutation_histogram=hist, programs=nprog, catalogue_paren_mutants=ncat,
               rule="for each generated valid program every single structural edit (delete an opener or END of an "
                    "inner construct, duplicate one, wrong/missing/surplus END name) and one parenthesis deletion and "
                    "one doubling per statement; every parenthesis of every entry of the statement catalogue and of 15 unit headers "
                    "(both suffix clauses in both orders) deleted and doubled; edits that provably leave a valid program are excluded by construct "
                    "kind; every mutant must raise; distinct = distinct mutated sources",
               samples=[dict(mutation=cases[len(cases) // 3][1], std=cases[len(cases) // 3][2])] if cases else [])
    return common.finish(ctx, proof, corr, e2e, extra_assumptions=[
        "which texts count as an opener/END/statement of a class is the leaf oracle L (statement-level regexes)",
        "parenthesis balance inside a statement is statement-level: covered by the SplitLine model/laws and Leg E"])


def replay(ctx, data):
    import fp
    o = fp.parse(data["source"], std=data.get("std", "f2003"), ignore_comments=not data.get("keep_comments", False))
    return o.kind not in ("tree", "none")
