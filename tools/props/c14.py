"""C14 -- preprocessor directives are kept as nodes and do not disturb the Fortran."""
import random
import re

import common
import gen
import pool

TARGETS = ["Properties/C14.vo"]

# (source lines of one directive, expected regenerated text or None = same as the single source line)
DIRECTIVES = [
    (["#if defined(FOO) && BAR > 2"], None),
    (["#ifdef FOO"], None),
    (["#ifndef FOO_H"], None),
    (["#elif BAZ == 1"], None),
    (["#else"], None),
    (["#endif"], None),
    (["#include \"file.inc\""], None),
    (["#define FOO 1"], None),
    (["#define ADD(a, b) ((a) + (b))"], None),
    (["#undef FOO"], None),
    (["#line 42 \"other.f90\""], None),
    (["#error unsupported configuration"], None),
    (["#warning check this"], None),
    (["#"], None),
    # keyword directly followed by a non-blank character
    (["#if(FOO)"], "#if (FOO)"),
    (["#if!defined(X)"], "#if !defined(X)"),
    (["#elif(BAR)"], "#elif (BAR)"),
    (["#include\"a.h\""], "#include \"a.h\""),
    (["#endif//x"], None),
    # shortest operands
    (["#include \"a\""], None),
    (["#define A"], None),
    (["#undef B"], None),
    (["#ifdef C"], None),
    (["#if 1"], None),
    (["#line 1"], None),
    (["# 1 \"main.F90\" 2"], None),
    (["#define TWICE(a) a; a"], None),
    (["#define MAX(A, B) ((A) > (B) ? (A) : (B))"], None),      # macro parameters in upper case, mixed, with an ellipsis
    (["#define IDX(i, J, _k) a(i + J + _k)"], None),
    (["#define CHECK(Cond, ...) call chk(Cond, __VA_ARGS__)"], None),                    # a ';' in a directive is not a statement separator
    (["#if defined(A); B"], None),
    (["#define LONG(a) \\", "    a + 1"], "#define LONG(a)     a + 1"),
    (["  #  define SPACED 3"], "#define SPACED 3"),
    (["#define TRAIL(a) a + 2 \\", ""], "#define TRAIL(a) a + 2"),
    (["#define SUM3(x, y, z) \\", "  ((x) + \\", "  (y) + (z))"], "#define SUM3(x, y, z) ((x) +   (y) + (z))"),
    (["#if defined(A) && \\", "    defined(B) && \\", "    defined(C) && \\", "    D > 1"],
     "#if defined(A) &&     defined(B) &&     defined(C) &&     D > 1"),
]
CPP_PREFIX = "Cpp_"


def insertions(rng, nstmts, mode, st=None):
    """list of (position, directive index); position p = before statement p (nstmts = at the end)"""
    if mode == "sweep" and st is not None:
        # one construct or unit (its kind drawn uniformly among the kinds present): a directive in front of EVERY
        # statement of its body and in front of its END
        opens = {}
        for i, x in enumerate(st):
            if x.role == "open":
                opens.setdefault(x.kind, []).append(i)
        if opens:
            i = rng.choice(opens[rng.choice(sorted(opens))])
            j = next((k for k in range(i + 1, len(st)) if st[k].role == "close" and st[k].cid == st[i].cid), None)
            if j is not None and j - i <= 40:
                return [(p, rng.randrange(len(DIRECTIVES))) for p in range(i + 1, j + 1)]
        mode = "multi"
    if mode == "single":
        return [(rng.randrange(0, nstmts + 1), rng.randrange(len(DIRECTIVES)))]
    k = rng.randrange(2, 7)
    return sorted((rng.randrange(0, nstmts + 1), rng.randrange(len(DIRECTIVES))) for _ in range(k))


def build(st, ins, comments_too, rng, want_ref=False):
    lines = []
    ref = []            # the same source without the directive lines
    expect = []
    by_pos = {}
    for p, d in ins:
        by_pos.setdefault(p, []).append(d)
    for i in range(len(st) + 1):
        for d in by_pos.get(i, []):
            if comments_too and rng.random() < 0.5:
                lines.append("! adjacent comment")
                ref.append("! adjacent comment")
            src, out = DIRECTIVES[d]
            lines.extend(src)
            expect.append(out if out is not None else src[0])
        if i < len(st):
            lines.append(st[i].line())
            ref.append(st[i].line())
    if want_ref:
        return "\n".join(lines) + "\n", expect, "\n".join(ref) + "\n"
    return "\n".join(lines) + "\n", expect


def normalise_directive(t):
    return " ".join(t.split())


def merge_component_parts(shape):
    """merge adjacent Component_Part siblings (used only to recognise the recorded finding)"""
    nm, kids = shape
    if not isinstance(kids, list):
        return shape
    out = []
    for k in (merge_component_parts(x) for x in kids):
        if out and k[0] == "Component_Part" and out[-1][0] == "Component_Part":
            out[-1] = ("Component_Part", out[-1][1] + k[1])
        else:
            out.append(k)
    return (nm, out)


def check_one(arg):
    std, seed, v = arg
    import fp
    st, _ = gen.gen_program(seed, std, size=0.5)
    rng = random.Random(seed * 17 + v)
    canon = gen.render(st)
    ref = fp.parse(canon, std=std, ignore_comments=True)
    if ref.kind != "tree":
        return [("generator", "canonical program rejected", dict(source=canon))]
    ins = insertions(rng, len(st), ("single", "multi", "sweep", "multi", "single", "sweep")[v % 6], st)
    keep = v % 3 == 2
    src, expect, csrc = build(st, ins, keep, rng, want_ref=True)
    rep = dict(std=std, source=src, canonical=canon, keep_comments=keep)
    o = fp.parse(src, std=std, ignore_comments=not keep)
    feats = []
    for p, d in ins:
        where = "before_first" if p == 0 else ("at_end" if p == len(st) else
                                               "in:" + (st[p].unit or "") + ":" + st[p - 1].kind)
        feats.append(where)
    if o.kind != "tree":
        return [("rejected", "valid program with directives rejected: %s line %s [%s]" % (o.kind, o.line, feats), rep)]
    fails = []
    got = [str(n) for n in fp.utils.walk(o.tree) if type(n).__name__.startswith(CPP_PREFIX)
           and type(n).__name__.endswith("_Stmt")]
    if [normalise_directive(g) for g in got] != [normalise_directive(e) for e in expect]:
        fails.append(("directives_differ", "directive nodes %r != inserted %r [%s]" % (got[:6], expect[:6], feats), rep))
    refc = ref
    if keep:
        # the reference with the same adjacent comments
        refc = fp.parse(csrc, std=std, ignore_comments=False)
    if refc.kind == "tree":
        a, b = fp.block_shape(o.tree, skip=(CPP_PREFIX,)), fp.block_shape(refc.tree)
        if a != b:
            if merge_component_parts(a) == merge_component_parts(b):
                fails.append(("directive_between_components_splits_component_part",
                              "a directive between two components of a derived type splits the Component_Part node "
                              "[%s]" % feats, rep))
            else:
                fails.append(("tree_differs", "strip_directives(tree(P+D)) != tree(P) [%s]" % feats, rep))
    out_lines = [l for l in str(o.tree).split("\n") if not l.lstrip().startswith("#")]
    ref_lines = str(refc.tree).split("\n") if refc.kind == "tree" else None
    # indentation, and with it the padding after a statement label, follows the position of a statement in its
    # block: compared modulo the blanks after a label
    lab = lambda l: re.sub(r"^(\d+)\s+", r"\1 ", l.strip())   # noqa
    if ref_lines is not None and [lab(l) for l in out_lines] != [lab(l) for l in ref_lines]:
        fails.append(("text_differs", "regenerated Fortran differs once directive lines are removed [%s]" % feats, rep))
    if v % 2 == 0:
        # the same source through a FortranFileReader: the same tree
        import os
        import shutil
        import tempfile
        d = tempfile.mkdtemp(prefix="verif_c14_")
        try:
            pth = os.path.join(d, "prog.F90")
            with open(pth, "w") as fh:
                fh.write(src)
            rdf = fp.FortranFileReader(pth, ignore_comments=not keep)
            rdf.set_format(fp.FortranFormat(True, False))
            of = fp.parse(src, std=std, rd=rdf)
            if of.kind != "tree" or fp.canon_repr(of.tree) != fp.canon_repr(o.tree):
                fails.append(("file_reader_differs", "FortranFileReader gives %s, a tree different from the string reader's [%s]"
                              % (of.kind, feats), dict(rep, reader="file")))
        finally:
            shutil.rmtree(d, ignore_errors=True)
    return fails


def run(ctx):
    proof = common.leg_p(ctx, TARGETS)
    import engine_corr
    cc = []
    for k in range(ctx.n(12, 100)):
        std = ("f2003", "f2008")[k % 2]
        st, _ = gen.gen_program(ctx.seed * 19 + k, std, size=0.5)
        rng = random.Random(ctx.seed + 7 * k)
        src, _ = build(st, insertions(rng, len(st), "multi"), k % 2 == 0, rng)
        cc.append((std, src, dict(ignore_comments=k % 2 == 1)))
    corr = engine_corr.corr_cases(cc)
    jobs = [(("f2003", "f2008")[k % 2], ctx.seed * 23 + k // 3, k % 6) for k in range(ctx.n(240, 6000))]
    res = pool.pmap(check_one, jobs, chunksize=6)
    failures = []
    for job, (st, r) in zip(jobs, res):
        if st != "ok":
            failures.append(("harness_error", r[:300], dict(job=job)))
        else:
            for sig, desc, rep in r:
                failures.append((sig, desc, dict(rep, job=list(job))))
    # the statement catalogue with a directive line in front of every line and after the last one
    import catprod
    cj = [(("f2003", "f2008")[k % 2], b, src, "directive") for k, (b, src) in enumerate(catprod.sources(ctx.quick, ctx.seed))]
    ncat = 0
    for job, (st, r) in zip(cj, pool.pmap(catprod.check_insert, cj, chunksize=8)):
        if st != "ok":
            failures.append(("harness_error", r[:300], dict(job=list(job))))
        else:
            ncat += r[0]
            failures += r[1]
    e2e = dict(cases=len(jobs) + ncat, distinct=len(set(jobs)) + ncat, failures=failures, catalogue_programs=ncat,
               rule="generated programs with one or several of 17 directive forms (all kinds, backslash continuation, "
                    "indented '#') inserted at random statement boundaries (any depth, before/after units, next to "
                    "comments): directive nodes == inserted in order with equal payload; block structure with Cpp "
                    "nodes removed == tree(P); regenerated text minus '#' lines == str(tree(P))",
               samples=[dict(job=list(jobs[1]))])
    return common.finish(ctx, proof, corr, e2e, extra_assumptions=[
        "payload preservation (Cpp_*_Stmt match/tostr) is statement-level: checked end-to-end, not proved",
        "transparency of directives inside strict_order blocks is not a theorem of the engine model"])


def replay(ctx, data):
    if "catalogue_insert" in data:
        import catprod
        return not catprod.check_insert((data.get("std", "f2003"), "", data["canonical"], data["catalogue_insert"]))[1]
    return not check_one(tuple(data["job"]))
