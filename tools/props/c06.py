"""C06 -- parsing ends in a tree or a FortranSyntaxError, for any input."""
import os
import random
import shutil
import tempfile
import traceback

import common
import gen
import lexer
import pool

TARGETS = ["Properties/C06.vo"]
PUNCT = ["(", ")", ",", "=", "::", ":", "*", "+", "-", "/", "'", '"', "&", "!", ";", "%", ".", "=>", "(/", "/)",
         "**", "//", "==", "<", ">", "[", "]", "{", "}", "#", "$", "?", "\\"]
KEYWORDS = ["end", "if", "then", "else", "do", "program", "module", "subroutine", "function", "contains", "call",
            "integer", "real", "type", "select", "case", "where", "forall", "interface", "use", "only", "print",
            "write", "read", "format", "data", "common", "block", "critical", "associate", "continue", "stop",
            "kind", "len", "intent", "dimension", "allocate", "deallocate", "nullify", "while", "concurrent",
            "operator", "assignment", "result", "bind", "class", "procedure", "generic", "final", "enum"]
CHARSET = "abcdefghijklmnopqrstuvwxyzABCXYZ0123456789 _()*+-/=,.:;'\"!&%<>[]$?#\\\t"
TIME_LIMIT = 20


def mutate_text(src, rng):
    lines = src.split("\n")[:-1]
    n = rng.randrange(1, 4)
    for _ in range(n):
        kind = rng.randrange(10)
        if not lines:
            break
        i = rng.randrange(len(lines))
        if kind == 0:
            del lines[i]
        elif kind == 1:
            lines.insert(i, lines[i])
        elif kind == 2 and len(lines) > 1:
            j = rng.randrange(len(lines))
            lines[i], lines[j] = lines[j], lines[i]
        elif kind in (3, 4, 5, 6):
            toks = [m for m in lexer._TOKEN.finditer(lines[i]) if m.lastgroup != "ws"]
            if not toks:
                continue
            m = rng.choice(toks)
            if kind == 3:
                lines[i] = lines[i][:m.start()] + lines[i][m.end():]
            elif kind == 4:
                lines[i] = lines[i][:m.end()] + " " + m.group(0) + lines[i][m.end():]
            elif kind == 5:
                lines[i] = lines[i][:m.start()] + rng.choice(PUNCT) + lines[i][m.end():]
            else:
                lines[i] = lines[i][:m.start()] + rng.choice(KEYWORDS) + lines[i][m.end():]
        elif kind == 7 and lines[i]:
            p = rng.randrange(len(lines[i]))
            lines[i] = lines[i][:p] + lines[i][p + 1:]
        elif kind == 8:
            p = rng.randrange(len(lines[i]) + 1)
            lines[i] = lines[i][:p] + rng.choice(CHARSET) + lines[i][p:]
        else:
            toks = [m for m in lexer._TOKEN.finditer(lines[i]) if m.lastgroup != "ws"]
            if len(toks) >= 2:
                a, b = rng.sample(toks, 2)
                if a.start() > b.start():
                    a, b = b, a
                l = lines[i]
                lines[i] = l[:a.start()] + b.group(0) + l[a.end():b.start()] + a.group(0) + l[b.end():]
    return "\n".join(lines) + "\n"


CPP_LINES = [["#ifdef FOO"], ["#endif"], ["#define ADD(a, b) ((a) + (b))"], ["#include \"x.inc\""],
             ["#define LONG(a) \\", "    a + 1"], ["#define TRAIL(a) a + 2 \\"], ["#else"], ["#"]]


def base_program(seed, std, rng, variant):
    """a valid program: canonical, laid out with comments/continuations, or with cpp lines (variant 0..2)"""
    import layout
    st, _ = gen.gen_program(seed, std, size=0.5)
    if variant == 0:
        return gen.render(st)
    if variant == 1:
        return layout.free_layout(st, rng, gen.USER_NAMES, comments=True, p_comment=0.3).text()
    lines = gen.render(st).split("\n")[:-1]
    for _ in range(rng.randrange(1, 4)):
        p = rng.randrange(len(lines) + 1)
        lines[p:p] = rng.choice(CPP_LINES)
    if rng.random() < 0.3:
        lines = lines[:rng.randrange(1, len(lines) + 1)]      # truncated file
    if rng.random() < 0.2:
        lines.append(rng.choice(["#define TWICE(a) \\", "#if defined(A) && \\"]))   # continuation runs off the end
    return "\n".join(lines) + "\n"


def corrupt_statement(text, v):
    """one systematic corruption of a statement (what a slip of the editor produces); None if not applicable"""
    import layout
    toks = layout.split_tokens(text)
    if v == 0:
        i = text.rfind(")")
        return None if i < 0 else text[:i] + text[i + 1:]
    if v == 1:
        i = text.find("(")
        return None if i < 0 else text[:i] + text[i + 1:]
    if v == 2:
        return text[:max(1, (len(text) * 3) // 5)] if len(text) > 4 else None
    if v == 3:
        return text[:toks[-1][0]].rstrip() if len(toks) > 1 else None
    if v == 4:
        i = text.find("(")
        return None if i < 0 else text[:i + 1] + "," + text[i + 1:]
    if v == 5:
        return text[toks[1][0]:] if len(toks) > 1 else None          # first token lost
    if v == 6:
        i = text.find(",")
        return None if i < 0 else text[:i] + ",," + text[i + 1:]
    if v == 7:
        i = text.find("=")
        return None if i < 0 else text[:i] + text[i + 1:]
    if v in (8, 9):
        idx = [i for i, ch in enumerate(text) if ch in "-+*/:%<>.&" ]
        if not idx:
            return None
        i = idx[0] if v == 8 else idx[-1]
        return text[:i] + text[i] + text[i:]                          # doubled operator character
    if v == 10:
        i = text.find("=", text.find("(") + 1) if "(" in text else -1
        if i < 0:
            return None
        j = i + 1
        while j < len(text) and text[j] not in ",)":
            j += 1
        return text[:i + 1] + text[j:]                                # keyword= with no value
    if v == 11:
        i = text.rfind(",")
        return None if i < 0 else text[:i + 1] + " ," + text[i + 1:]  # empty item before the last one
    if v == 12:
        return text[:toks[0][1]] if len(toks) > 1 else None            # only the first token (the keyword) is left
    if v == 13:
        return text[:toks[1][1]] if len(toks) > 2 else None            # only the first two tokens are left
    if v in (14, 15, 16):
        # a whole innermost parenthesised group is lost (v=14: the last one, v=15: the first one), or only its content (v=16)
        import re as _re
        groups = [m for m in _re.finditer(r"\([^()']*\)", text)]
        if not groups:
            return None
        m = groups[-1] if v != 15 else groups[0]
        return text[:m.start()] + ("()" if v == 16 else "") + text[m.end():]
    if v in (17, 18, 19):
        # one item of a comma-separated list is lost together with a comma: the last item (17), the second item (18),
        # the item in front of the last comma (19)
        cs = [i for i, ch in enumerate(text) if ch == ","]
        if not cs:
            return None
        if v == 19:
            j = cs[-1]
            i = j - 1
            while i >= 0 and text[i] not in ",(=":
                i -= 1
            return text[:i + 1] + text[j + 1:]
        i = cs[-1] if v == 17 else cs[0]
        j = i + 1
        while j < len(text) and text[j] not in ",)":
            j += 1
        return text[:i] + text[j:]
    return None


NCORRUPT = 20


def systematic_jobs(seed, std, nprog):
    """every statement of nprog generated programs x every corruption: the rest of the program is intact"""
    jobs = []
    for p in range(nprog):
        st, _ = gen.gen_program(seed * 59 + p, std, size=0.5)
        lines = [s.line() for s in st]
        for i, s in enumerate(st):
            for v in range(NCORRUPT):
                c = corrupt_statement(s.text, v)
                if c is None or c == s.text:
                    continue
                t = s.copy()
                t.text = c
                jobs.append((std, "\n".join(lines[:i] + [t.line()] + lines[i + 1:]) + "\n", (p + i) % 2 == 1))
    return jobs


def random_text(rng):
    out = []
    for _ in range(rng.randrange(1, 8)):
        if rng.random() < 0.5:
            out.append(" ".join(rng.choice(KEYWORDS + PUNCT + ["x", "y1", "42", "1.0e-3", "'s'"])
                                for _ in range(rng.randrange(0, 9))))
        else:
            out.append("".join(rng.choice(CHARSET) for _ in range(rng.randrange(0, 30))))
    return "\n".join(out) + "\n"


def signature(exc):
    """exception type + qualified names of the innermost fparser frames (never line numbers)"""
    names = []
    tb = exc.__traceback__
    while tb is not None:
        code = tb.tb_frame.f_code
        if "/fparser/" in code.co_filename:
            names.append(getattr(code, "co_qualname", code.co_name))
        tb = tb.tb_next
    inner = [n for n in names if not n.startswith(("Base.__new__", "show_result"))][-2:]
    if type(exc).__name__ == "InternalError" and inner and inner[-1] == "Kind_Selector.match":
        inner = inner[-1:]          # one raise site, reached from several statement classes
    return type(exc).__name__ + ":" + ">".join(inner)


def run_one(arg):
    std, src, keep = arg
    import fp
    try:
        o = pool.with_timeout(lambda a: fp.parse(*a[:1], std=a[1], ignore_comments=a[2]), (src, std, not keep), TIME_LIMIT)
    except pool.Timeout:
        return ("timeout", "timeout")
    if o.kind in ("tree", "none"):
        # printing the result must terminate too
        if o.kind == "tree":
            try:
                pool.with_timeout(lambda t: str(t), o.tree, TIME_LIMIT)
            except pool.Timeout:
                return ("timeout", "timeout:str")
            except BaseException as e:  # noqa
                return ("escape", "str():" + signature(e))
        return ("ok", o.kind)
    if o.kind == "syntax":
        return ("ok", "syntax")
    return ("escape", signature(o.exc))


def run_file(arg):
    """bytes that are not valid UTF-8 through FortranFileReader"""
    data, std = arg
    import fp
    d = tempfile.mkdtemp(prefix="verif_c06_")
    try:
        p = os.path.join(d, "bad.f90")
        with open(p, "wb") as f:
            f.write(data)
        try:
            rd = fp.FortranFileReader(p, ignore_comments=True)
            fp.parser(std)(rd)
        except fp.utils.FortranSyntaxError:
            return ("ok", "syntax")
        except SystemExit as e:
            return ("escape", "SystemExit")
        except BaseException as e:  # noqa
            return ("escape", signature(e))
        return ("ok", "tree")
    finally:
        shutil.rmtree(d, ignore_errors=True)


def run(ctx):
    proof = common.leg_p(ctx, TARGETS)
    import engine_corr
    rng = ctx.rng
    # ---- Leg C: outcome TYPE of the engine model vs implementation on mutated item streams
    cc = []
    for k in range(ctx.n(60, 600)):
        std = ("f2003", "f2008")[k % 2]
        cc.append((std, mutate_text(base_program(ctx.seed * 37 + k // 3, std, rng, k % 3), rng),
                   dict(ignore_comments=k % 2 == 0)))
    corr = engine_corr.corr_cases(cc)
    # ---- Leg E
    jobs = []
    for k in range(ctx.n(1500, 150000)):
        std = ("f2003", "f2008")[k % 2]
        if k % 6 == 5:
            src = random_text(rng)
        else:
            src = base_program(ctx.seed * 41 + k // 5, std, rng, k % 3)
            if k % 7 != 0:           # one in seven is left unmutated (valid programs must not escape either)
                src = mutate_text(src, rng)
        jobs.append((std, src, k % 2 == 1))
    nrand = len(jobs)
    for std in ("f2003", "f2008"):
        jobs += systematic_jobs(ctx.seed, std, ctx.n(4, 30))
    # entities named like keywords (no reserved words in Fortran) and a catalogue of less usual statement forms,
    # intact and with every systematic corruption of their first line
    import catalogue
    import kwnames
    nsys = len(jobs) - nrand
    for k, src in enumerate(kwnames.exhaustive(ctx.seed) + kwnames.sources(rng, ctx.n(500, 40000))):
        jobs.append((("f2003", "f2008")[k % 2], src, k % 3 == 0))
    cat = catalogue.BODIES
    for k, b in enumerate(cat):
        w = catalogue.WRAPS[k % len(catalogue.WRAPS)]
        first, _, rest = b.partition("\n")
        for std in ("f2003", "f2008"):          # both: the two standards have classes of their own for some statements
            jobs.append((std, w % b, False))
            for v in range(NCORRUPT):
                c = corrupt_statement(first, v)
                if c is not None and c != first:
                    jobs.append((std, w % (c + ("\n" + rest if rest else "")), False))
    res = pool.pmap(run_one, jobs, chunksize=20)
    failures = []
    hist = {}
    for job, (st, r) in zip(jobs, res):
        if st != "ok":
            failures.append(("harness_error", r[:300], dict(std=job[0], source=job[1])))
            continue
        hist[r[0] + ":" + r[1].split(":")[0]] = hist.get(r[0] + ":" + r[1].split(":")[0], 0) + 1
        if r[0] == "escape":
            failures.append((r[1], "an exception other than FortranSyntaxError escaped: " + r[1],
                             dict(std=job[0], source=job[1], keep_comments=job[2])))
        elif r[0] == "timeout":
            failures.append(("timeout", "no result within %d s" % TIME_LIMIT,
                             dict(std=job[0], source=job[1], keep_comments=job[2])))
    # invalid UTF-8
    fjobs = []
    base = gen.render(gen.gen_program(ctx.seed, "f2003", size=0.4)[0]).encode()
    for k in range(ctx.n(20, 200)):
        b = bytearray(base)
        for _ in range(rng.randrange(1, 4)):
            p = rng.randrange(len(b))
            b[p:p] = bytes([rng.choice([0xff, 0xfe, 0xc3, 0x80, 0xe2, 0x28, 0xa0])])
        fjobs.append((bytes(b), ("f2003", "f2008")[k % 2]))
    for job, (st, r) in zip(fjobs, pool.pmap(run_file, fjobs, chunksize=4)):
        if st != "ok":
            failures.append(("harness_error", r[:300], dict(bytes=job[0].hex())))
        elif r[0] == "escape":
            # the escape is keyed like any other: the inserted byte may simply be '(' (the channel matters only for decoding errors)
            failures.append((r[1], "file with inserted bytes: " + r[1], dict(bytes_hex=job[0].hex(), std=job[1])))
    e2e = dict(cases=len(jobs) + len(fjobs), distinct=len(set(j[1] for j in jobs)), failures=failures,
               outcome_histogram=hist,
               systematic_corruptions=nsys, keyword_name_and_catalogue_cases=len(jobs) - nrand - nsys,
               rule="statements whose entity names coincide with keywords (84 templates x 140 keywords, sampled) and a catalogue "
                    "of ~300 less usual statement forms, intact and corrupted; EVERY statement of generated programs x 12 systematic corruptions (last ')' / first '(' / first '=' "
                    "deleted, truncated, last or first token lost, stray or doubled comma, doubled operator character, keyword= "
                    "without value, empty list item); 1-3 token/character/line mutations (delete, duplicate, swap, replace by punctuation/keywords, "
                    "insert a character) of generated programs and unstructured text over the Fortran character "
                    "set, both standards, comments kept or dropped, %d s alarm per input; files with invalid UTF-8 "
                    "through FortranFileReader; escapes are keyed by exception type and innermost fparser frames"
                    % TIME_LIMIT,
               samples=[dict(std=jobs[4][0], source=jobs[4][1][:400])])
    return common.finish(ctx, proof, corr, e2e, extra_assumptions=[
        "which exceptions the ~400 statement-level match bodies raise on odd substrings, wall-clock time and the "
        "interpreter's recursion limit are not modelled: they are explored, not proved",
        "termination is proved neither for the model (explicit fuel) nor for the code"])


def replay(ctx, data):
    if "bytes_hex" in data:
        return run_file((bytes.fromhex(data["bytes_hex"]), data.get("std", "f2003")))[0] == "ok"
    return run_one((data.get("std", "f2003"), data["source"], data.get("keep_comments", False)))[0] == "ok"
