"""C01 -- regenerated source re-parses to the same tree (round-trip fixpoint)."""
import random
import re

import common
import gen
import layout
import pool

TARGETS = ["Properties/C01.vo"]


def norm_text(s):
    """modulo trailing blank lines and the synthetic names of unnamed BLOCK constructs"""
    import fp
    return fp.renumber_blocks("\n".join(l.rstrip() for l in s.rstrip("\n").split("\n")))


def leaves(tree):
    import fp
    out = []

    def rec(n):
        if isinstance(n, fp.utils.BlockBase):
            for c in n.content:
                rec(c)
        else:
            out.append(n)
    rec(tree)
    return out


def check_one(arg):
    if arg[0] == "src":
        # a catalogue entry: the property speaks about ACCEPTED programs, so a rejected entry is skipped
        _, std, src, keep = arg
        return check_source(src, std, keep, dict(std=std, keep_comments=keep, source=src, catalogue=True), False)
    std, seed, v = arg
    st, _ = gen.gen_program(seed, std, size=0.6)
    keep = v % 2 == 1
    rng = random.Random(seed * 7 + v)
    if v < 2:
        src = gen.render(st)
    else:
        L = layout.free_layout(st, rng, gen.USER_NAMES, comments=True, p_comment=0.25, p_break=0.2)
        src = L.text()
    return check_source(src, std, keep, dict(std=std, seed=seed, variant=v, keep_comments=keep, source=src), True)


def check_source(src, std, keep, rep, must_parse):
    import fp
    o1 = fp.parse(src, std=std, ignore_comments=not keep)
    if o1.kind != "tree":
        if not must_parse and o1.kind in ("syntax", "none"):
            return [], 0
        return [("valid_program_rejected", "parse(P): %s line %s %r" % (o1.kind, o1.line, o1.text), rep)], 0
    t1 = o1.tree
    s1 = str(t1)
    trail = lambda r: re.sub(r"(, Comment\(''\))+\)$", ")", r)   # noqa  (modulo trailing blank lines)
    r1 = trail(fp.canon_repr(t1))
    fails = []
    # printer order (correspondence with the print model): the statements of str(T) are the leaves of T in order
    lab = lambda l: re.sub(r"^(\d+)\s+", r"\1 ", l.strip())   # noqa  (a label is padded according to the indentation)
    lines = [lab(l) for l in s1.split("\n") if l.strip()]
    lv = [lab(x.tofortran()) for x in leaves(t1)]
    lv = [x for x in lv if x]
    if lines != lv:
        i = next((k for k in range(min(len(lines), len(lv))) if lines[k] != lv[k]), min(len(lines), len(lv)))
        fails.append(("print_order_differs", "line %d of str(T) is %r, leaf %d prints %r" % (i, lines[i:i + 1], i, lv[i:i + 1]), rep))
    o2 = fp.parse(s1, std=std, ignore_comments=not keep)
    if o2.kind != "tree":
        fails.append(("regenerated_source_rejected", "parse(str(T)): %s line %s %r" % (o2.kind, o2.line, o2.text),
                      dict(rep, regenerated=s1)))
        return fails, len(lv)
    r2 = trail(fp.canon_repr(o2.tree))
    if r1 != r2:
        i = next((k for k in range(min(len(r1), len(r2))) if r1[k] != r2[k]), min(len(r1), len(r2)))
        fails.append(("reparsed_tree_differs", "parse(str(T)) !~ T near %r vs %r" % (r1[max(0, i - 60):i + 40], r2[max(0, i - 60):i + 40]),
                      dict(rep, regenerated=s1)))
    s2 = str(o2.tree)
    if norm_text(s1) != norm_text(s2):
        a, b = norm_text(s1).split("\n"), norm_text(s2).split("\n")
        d = [(x, y) for x, y in zip(a, b) if x != y][:2] or [("length", len(a), len(b))]
        fails.append(("second_print_differs", "str(parse(str(T))) != str(T): %r" % (d,), dict(rep, regenerated=s1)))
    return fails, len(lv)


def run(ctx):
    proof = common.leg_p(ctx, TARGETS)
    import engine_corr
    cc = []
    for k in range(ctx.n(30, 500)):
        std = ("f2003", "f2008")[k % 2]
        import fp
        st, _ = gen.gen_program(ctx.seed * 401 + k, std, size=0.5)
        o = fp.parse(gen.render(st), std=std, ignore_comments=k % 4 < 2)
        if o.kind == "tree":
            # the engine model is compared with the implementation on the REGENERATED text (second round)
            cc.append((std, str(o.tree), dict(ignore_comments=k % 4 < 2)))
    corr = engine_corr.corr_cases(cc)
    corr["samples"] = [dict(std=cc[0][0], source=cc[0][1][:600])]
    # statement level: the models of EndStmtBase / WORDClsBase against the live classes that delegate to them
    import stmtbase_corr
    sb = stmtbase_corr.corr(ctx.seed, ctx.n(40, 400))
    corr["cases"] += sb["cases"]
    corr["distinct"] = corr.get("distinct", corr["cases"] - sb["cases"]) + sb["cases"]
    corr["disagreements"] = list(corr.get("disagreements", [])) + sb["disagreements"]
    corr["statement_level"] = dict(end_classes=sb["end_classes"], keyword_classes=sb["word_classes"], cases=sb["cases"],
                                   not_modelled=sb["not_modelled"])
    corr["samples"] += sb["samples"]
    # ... and the model of string_replace_map and of the list / separator / call / keyword-value matchers
    import srm_corr
    sr = srm_corr.corr(ctx.seed, ctx.n(40, 600))
    corr["cases"] += sr["cases"]
    corr["distinct"] += sr["cases"]
    corr["disagreements"] += sr["disagreements"]
    corr["separator_level"] = {k: v for k, v in sr.items() if k not in ("disagreements", "samples")}
    corr["samples"] += sr["samples"]
    jobs = [(("f2003", "f2008")[k % 2], ctx.seed * 409 + k // 8, k % 4) for k in range(ctx.n(500, 16000))]
    # catalogue of less usual statement forms and of entities named like keywords (whatever parses must round-trip)
    import catalogue
    import kwnames
    cat = catalogue.sources() if not ctx.quick else catalogue.sources()[ctx.seed % 3::3]
    kww = [w for w in kwnames.WRAPS if w != "%s\n"]
    cat += kwnames.exhaustive(ctx.seed, kww)[ctx.seed % 4::4 if ctx.quick else 1] + kwnames.sources(ctx.rng, ctx.n(100, 6000), wraps=kww)
    jobs += [("src", ("f2003", "f2008")[k % 2], src, k % 3 == 0) for k, src in enumerate(cat)]
    failures = []
    nleaf = 0
    for job, (st, r) in zip(jobs, pool.pmap(check_one, jobs, chunksize=8)):
        if st != "ok":
            failures.append(("harness_error", r[:300], dict(job=list(job))))
        else:
            fl, n = r
            nleaf += n
            failures += [(s, d, dict(rep, job=list(job))) for s, d, rep in fl]
    e2e = dict(cases=len(jobs), distinct=len(set(jobs)), failures=failures, statements_printed=nleaf,
               catalogue_entries=len(cat),
               rule="a catalogue of less usual statement forms (empty / doubled optional parts, subscripted designators of "
                    "CALL and function references, every declaration attribute statement) and statements whose entity names "
                    "coincide with keywords, in five program-unit wrappers: whatever parses must round-trip; generated programs (canonical and free-form layouts with comments), both standards, comments "
                    "discarded / retained: T = parse(P) exists; the non-blank lines of str(T) are the leaves of T in "
                    "order (print model); parse(str(T)) is structurally identical to T (canonical repr); "
                    "str(parse(str(T))) == str(T) modulo trailing blanks and block:N names",
               samples=[dict(job=list(jobs[0]))])
    return common.finish(ctx, proof, corr, e2e, extra_assumptions=[
        "proved (regenerated tables, every leaf oracle): parsing a tree's own statements again returns the same tree "
        "(exact from the second round on, when line numbers are those of the printed text)",
        "statement level: EndStmtBase.match/tostr and WORDClsBase.match (string keyword) are modelled and proved to re-match "
        "their own text for every live class that delegates to them with constant arguments (13 END + 24 keyword classes, "
        "read off the source on every run); the sub-rule class of a keyword statement stays outside the model",
        "not modelled: the other ~360 statement-level match()/tostr() pairs (that a printed statement is classified like "
        "the original) -- checked end to end; the print order of BlockBase.tofortran and its overrides is checked "
        "against the leaves on every explored tree"])


def replay(ctx, data):
    if data.get("catalogue"):
        return not check_source(data["source"], data["std"], data["keep_comments"], {}, False)[0]
    return not check_one(tuple(data["job"]))[0]
