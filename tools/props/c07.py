"""C07 -- a syntax error is reported at the offending statement's line."""
import random

import common
import gen
import mutate
import pool

TARGETS = ["Properties/C07.vo"]
GARBAGE = [["@@@ not fortran"], ["x = {1, 2, 3}"], ["}{ %s {0} oddly"], ["@@@ continued &", "   &garbage here"],
           ["= = 3 3"]]


def build(st, k, garb, with_comments, formfeed):
    """program text with statement k replaced by garbage; returns (text, expected line, expected text)"""
    lines = []
    exp = None
    for i, s in enumerate(st):
        if with_comments and i % 4 == 1:
            lines.append("  ! a comment" + ("\x0c" if formfeed else ""))
        if i == k:
            for g in garb:
                lines.append("  " * s.depth + g)
            exp = len(lines)
        else:
            lines.append(s.line())
        if with_comments and i % 5 == 2:
            lines[-1] += " ! trailing"
    return "\n".join(lines) + "\n", exp, lines[exp - 1]


def implicit_main(st):
    """the main program of st without its PROGRAM statement, as the only unit (None if there is none)"""
    op = [i for i, s in enumerate(st) if s.role == "open" and s.kind == "program"]
    if not op:
        return None
    i = op[0]
    j = next(k for k in range(i, len(st)) if st[k].role == "close" and st[k].cid == st[i].cid)
    body = [s.copy() for s in st[i + 1:j + 1]]
    body[-1].text = "end"
    return body


def check_one(arg):
    std, seed, k, gi, with_comments, keep, formfeed = arg
    import fp
    st, _ = gen.gen_program(abs(seed), std, size=0.5)
    if seed < 0:                      # negative seed: the implicit-main variant of the same program
        st = implicit_main(st)
        if st is None or len(st) < 3:
            return []
    k = k % len(st)
    src, line, text = build(st, k, GARBAGE[gi], with_comments, formfeed)
    o = fp.parse(src, std=std, ignore_comments=not keep)
    rep = dict(std=std, source=src, keep_comments=keep, expected_line=line, expected_text=text,
               statement=st[k].line(""))
    feat = st[k].role + ":" + st[k].kind
    if with_comments:
        # the same source read from a file (page breaks and other control characters in comments included)
        import os, shutil, tempfile
        d = tempfile.mkdtemp(prefix="verif_c07_")
        try:
            pth = os.path.join(d, "prog.f90")
            with open(pth, "w", newline="") as fh:
                fh.write(src)
            of = fp.parse(src, std=std, rd=fp.FortranFileReader(pth, ignore_comments=not keep))
        finally:
            shutil.rmtree(d, ignore_errors=True)
        if (of.kind, of.line) != (o.kind, o.line):
            return [("file_reader_differs", "string reader: %s line %s, file reader: %s line %s [%s]"
                     % (o.kind, o.line, of.kind, of.line, feat), dict(rep, reader="file"))]
    if o.kind != "syntax":
        return [("not_a_syntax_error:" + o.kind, "outcome %s instead of FortranSyntaxError [%s]" % (o.kind, feat), rep)]
    fails = []
    if o.line != line:
        fails.append(("wrong_line", "reported line %s, statement ends at line %s [%s]" % (o.line, line, feat), rep))
    elif o.text != text.rstrip():
        fails.append(("wrong_text", "quoted text %r, line is %r [%s]" % (o.text, text, feat), rep))
    return fails


def run(ctx):
    proof = common.leg_p(ctx, TARGETS)
    import engine_corr
    cc = []
    for k in range(ctx.n(25, 300)):
        std = ("f2003", "f2008")[k % 2]
        st, _ = gen.gen_program(ctx.seed * 29 + k // 4, std, size=0.5)
        i = ctx.rng.randrange(len(st))
        src, _, _ = build(st, i, GARBAGE[k % len(GARBAGE)], k % 3 == 0, False)
        cc.append((std, src, dict(ignore_comments=k % 3 != 0)))
    corr = engine_corr.corr_cases(cc)      # the reported line is one of the compared observables
    jobs = []
    nprog = ctx.n(10, 250)
    for p in range(nprog):
        std = ("f2003", "f2008")[p % 2]
        seed = ctx.seed * 31 + p
        st, _ = gen.gen_program(seed, std, size=0.5)
        for k in range(len(st)):          # every statement position (exhaustive per program)
            gi = (k + p) % len(GARBAGE)
            wc = (k + p) % 3 == 0
            jobs.append((std, seed, k, gi, wc, wc and k % 2 == 0, wc and k % 4 == 0))
        if p % 3 == 0:                # a main program without PROGRAM statement: every position but the END
            im = implicit_main(st)
            for k in range(len(im) - 1 if im else 0):
                jobs.append((std, -seed, k, (k + p) % len(GARBAGE), k % 3 == 0, k % 6 == 0, False))
    res = pool.pmap(check_one, jobs, chunksize=16)
    failures = []
    for job, (st, r) in zip(jobs, res):
        if st != "ok":
            failures.append(("harness_error", r[:300], dict(job=job)))
        else:
            for sig, desc, rep in r:
                failures.append((sig, desc, dict(rep, job=list(job))))
    e2e = dict(cases=len(jobs), distinct=len(set(jobs)), programs=nprog, failures=failures,
               rule="for each generated free-form program EVERY statement position is replaced in turn by one of 5 "
                    "garbage texts (one continued over two lines; two containing braces), with and without "
                    "comment lines / trailing comments (one variant with a form feed in a comment), comments kept or "
                    "dropped: FortranSyntaxError whose 'at line N' is the last physical line of the statement and "
                    "whose '>>>' text is that line",
               samples=[dict(job=list(jobs[len(jobs) // 2]))])
    return common.finish(ctx, proof, corr, e2e, extra_assumptions=[
        "proved: the reported line is never AFTER the statement (K5 barrier, every table and oracle); that it is not "
        "BEFORE it (the statement is read at all) and the quoted text are checked by exhaustive position enumeration",
        "fixed form is excluded (get_next_line look-ahead; documented limitation)"])


def replay(ctx, data):
    return not check_one(tuple(data["job"]))
