"""C10 -- the parse tree is a well-formed tree with consistent navigation."""
import random

import common
import gen
import layout
import pool

TARGETS = ["Properties/C10.vo"]

EXTRA = ["program progMain\n  integer :: ivA(3), eqA, eqB\n  common /cmnBlk/ cmA, cmB(3)\n  dimension eArr(5)\n"
         "  equivalence (eqA, eqB)\n  namelist /nmlGrp/ ivA, eqA\n  ivA = (/ (iCnt * 2, iCnt = 1, 3) /)\n"
         "  do 10 iCnt = 1, 3\n    if (iCnt > 1) then\n      eqA = 1\n    end if\n10 cmA = cmA + 1.0\n"
         "  do 20 iCnt = 1, 2\n  do 30 jIdx = 1, 2\n30 cmA = 2.0\n20 continue\nend program progMain\n"]


def check_one(arg):
    std, seed, v = arg
    import fp
    if isinstance(seed, str):
        src = seed            # a catalogue entry (whatever parses must satisfy the invariants)
    elif seed < 0:
        src = EXTRA[-seed - 1]
    else:
        st, _ = gen.gen_program(seed, std, size=0.6)
        if v % 2:
            src = layout.free_layout(st, random.Random(seed + v), gen.USER_NAMES, comments=True, p_comment=0.3).text()
        else:
            src = gen.render(st)
    keep = v % 2 == 1
    o = fp.parse(src, std=std, ignore_comments=not keep, process_directives=keep and v % 4 == 3)
    if o.kind != "tree":
        return []
    fails = []
    for what, tree in (("parse", o.tree),):
        bad = fp.tree_invariants(tree)
        if bad:
            fails.append(("invariant:" + bad[0].split(":")[0].split(" ")[0], "; ".join(bad[:3]), dict(std=std, source=src,
                                                                                                     keep_comments=keep)))
    # the re-parse of the regenerated source (C01) is a tree of the same kind
    o2 = fp.parse(str(o.tree), std=std, ignore_comments=not keep)
    if o2.kind == "tree":
        bad = fp.tree_invariants(o2.tree)
        if bad:
            fails.append(("invariant_reparse", "; ".join(bad[:3]), dict(std=std, source=str(o.tree), keep_comments=keep)))
    return fails


def run(ctx):
    proof = common.leg_p(ctx, TARGETS)
    import engine_corr
    cc = []
    for k in range(ctx.n(10, 100)):
        std = ("f2003", "f2008")[k % 2]
        st, _ = gen.gen_program(ctx.seed * 101 + k, std, size=0.5)
        cc.append((std, gen.render(st), dict(ignore_comments=k % 2 == 0)))
    cc.append(("f2003", EXTRA[0], dict(ignore_comments=True)))
    corr = engine_corr.corr_cases(cc)
    jobs = [(("f2003", "f2008")[k % 2], ctx.seed * 103 + k // 2, k % 4) for k in range(ctx.n(120, 4000))]
    jobs += [(std, -1, v) for std in ("f2003", "f2008") for v in (0, 1)]
    import catalogue
    cat = catalogue.sources()
    jobs += [(("f2003", "f2008")[k % 2], src, 0) for k, src in enumerate(cat if not ctx.quick else cat[ctx.seed % 3::3])]
    failures = []
    for job, (st, r) in zip(jobs, pool.pmap(check_one, jobs, chunksize=6)):
        if st != "ok":
            failures.append(("harness_error", r[:300], dict(job=job)))
        else:
            failures += [(s, d, dict(rep, job=list(job))) for s, d, rep in r]
    e2e = dict(cases=len(jobs), distinct=len(set(jobs)), failures=failures,
               rule="every node of the trees of a catalogue of ~300 less usual statement forms in five unit wrappers, of generated programs (both standards, comments dropped/kept/directives) "
                    "and of the re-parse of their regenerated source, plus a program with COMMON/DIMENSION/"
                    "EQUIVALENCE/NAMELIST/implied-DO/non-block DO (nested containers and back-tracking): each node "
                    "object once; parent == the node in whose children (nested tuples/lists included) it appears; "
                    "root has no parent; get_root() from every node; walk() visits every node exactly once in "
                    "pre-order; statements print in walk order",
               samples=[dict(job=list(jobs[0]))])
    return common.finish(ctx, proof, corr, e2e, extra_assumptions=[
        "the up-links themselves (Base.parent, set at construction and re-set when a cached statement object is "
        "adopted by the surviving parent) are not in the engine model: checked on every node of every tree",
        "proved: walk()/_set_parent() agree on children for every nesting of lists and tuples (variants selected by "
        "probes of the live functions); statement nodes are the source items once each in order (engine K2)"])


def replay(ctx, data):
    return not check_one(tuple(data["job"]))
