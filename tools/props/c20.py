"""C20 -- parsing effort stays polynomial in nesting depth and program length."""
import common
import pool

TARGETS = ["Properties/C20.vo"]

DECL = "  integer :: i, j, k, n\n  real :: x, a(10), b, c\n  logical :: l, m\n  character(len=4) :: s, t\n"


def wrap(body):
    return "program p\n" + DECL + body + "end program p\n"


def nest(open_, close, d, inner="  x = 1\n"):
    out = ""
    for k in range(d):
        out += "  " * k + open_(k)
    out += inner
    for k in reversed(range(d)):
        out += "  " * k + close(k)
    return out


# ---- the catalogue: name -> (degree k_f, builder(n), standards)
def _chain(op, operand="b"):
    return lambda n: wrap("  x = " + (" %s " % op).join([operand] * (n + 1)) + "\n")


FAMILIES = {
    # expression nesting
    "parens": (2, lambda d: wrap("  x = " + "(" * d + "b" + ")" * d + "\n")),
    "signed_parens": (2, lambda d: wrap("  x = " + "-(" * d + "b" + ")" * d + "\n")),
    "plus_signed": (2, lambda d: wrap("  x = " + "b + (-(" * d + "c" + "))" * d + "\n")),
    "signed_sum": (2, lambda d: wrap("  x = " + "-(b + c*(" * d + "c" + "))" * d + "\n")),
    "not_parens": (2, lambda d: wrap("  l = " + ".not. (" * d + "m" + ")" * d + "\n")),
    "call_nest": (2, lambda d: wrap("  x = " + "f(" * d + "b" + ")" * d + "\n")),
    "index_nest": (2, lambda d: wrap("  x = " + "a(int(" * d + "1" + "))" * d + "\n")),
    "mixed_nest": (2, lambda d: wrap("  x = " + "(b * f(c + " * d + "b" + "))" * d + "\n")),
    "array_ctor_nest": (2, lambda d: wrap("  x = sum(" + "(/ b, sum(" * d + "(/ b /)" + ") /)" * d + ")\n")),
    # operator chains of length n
    "add_chain": (2, _chain("+")),
    "mul_chain": (2, _chain("*")),
    "pow_chain": (2, _chain("**")),
    "cat_chain": (2, _chain("//", "s")),
    "and_chain": (2, _chain(".and.", "l")),
    "or_chain": (2, _chain(".or.", "l")),
    "eqv_chain": (2, _chain(".eqv.", "l")),
    "rel_and_chain": (2, _chain(".and.", "b < c")),
    "arg_list": (2, lambda n: wrap("  call sub(" + ", ".join(["b + c"] * (n + 1)) + ")\n")),
    # construct nesting
    "if_nest": (2, lambda d: wrap(nest(lambda k: "if (l) then\n", lambda k: "end if\n", d))),
    "named_if_nest": (2, lambda d: wrap(nest(lambda k: "n%d: if (l) then\n" % k, lambda k: "end if n%d\n" % k, d))),
    "if_else_nest": (2, lambda d: wrap(nest(lambda k: "if (l) then\n", lambda k: "else\n  x = 2\nend if\n", d))),
    "do_nest": (2, lambda d: wrap(nest(lambda k: "do i = 1, 2\n", lambda k: "end do\n", d))),
    "do_while_nest": (2, lambda d: wrap(nest(lambda k: "do while (l)\n", lambda k: "end do\n", d))),
    "label_do_continue_nest": (2, lambda d: wrap(nest(lambda k: "do %d i = 1, 2\n" % (10 + k),
                                                      lambda k: "%d continue\n" % (10 + k), d))),
    "label_do_enddo_nest": (2, lambda d: wrap(nest(lambda k: "do %d i = 1, 2\n" % (10 + k),
                                                   lambda k: "%d end do\n" % (10 + k), d))),
    "shared_label_do": (2, lambda d: wrap("  do 10 i = 1, 2\n" * d + "  x = 1\n10 continue\n")),
    "shared_label_action": (2, lambda d: wrap("  do 10 i = 1, 2\n" * d + "  x = 1\n10 b = x\n")),
    "select_nest": (2, lambda d: wrap(nest(lambda k: "select case (i)\ncase (1)\n", lambda k: "case default\n  x = 3\nend select\n", d))),
    "where_nest": (2, lambda d: wrap(nest(lambda k: "where (a > 0.0)\n", lambda k: "end where\n", d, "  a = 1.0\n"))),
    "forall_nest": (2, lambda d: wrap(nest(lambda k: "forall (i = 1:2)\n", lambda k: "end forall\n", d, "  a(i) = 1.0\n"))),
    "associate_nest": (2, lambda d: wrap(nest(lambda k: "associate (z%d => b)\n" % k, lambda k: "end associate\n", d))),
    "block_nest": (2, lambda d: wrap(nest(lambda k: "block\n", lambda k: "end block\n", d)), ("f2008",)),
    "mixed_construct_nest": (2, lambda d: wrap(nest(
        lambda k: ("if (l) then\n", "do i = 1, 2\n", "select case (i)\ncase (1)\n", "do 7%d j = 1, 2\n" % k)[k % 4],
        lambda k: ("end if\n", "end do\n", "end select\n", "7%d continue\n" % k)[k % 4], d))),
    # repetition
    "assign_seq": (2, lambda n: wrap("  x = b + c\n" * n)),
    "call_seq": (2, lambda n: wrap("  call sub(b, c)\n" * n)),
    "print_seq": (2, lambda n: wrap("  print *, b, 'text', c\n" * n)),
    "decl_seq": (2, lambda n: "program p\n" + "".join("  real :: v%d\n" % k for k in range(n)) + "end program p\n"),
    "if_stmt_seq": (2, lambda n: wrap("  if (l) x = 1\n" * n)),
    "do_seq": (2, lambda n: wrap("  do i = 1, 2\n    x = 1\n  end do\n" * n)),
    "if_seq": (2, lambda n: wrap("  if (l) then\n    x = 1\n  else if (m) then\n    x = 2\n  end if\n" * n)),
    "label_do_continue_seq": (2, lambda n: wrap("".join("  do %d i = 1, 2\n    x = 1\n%d continue\n" % (10 + k, 10 + k)
                                                        for k in range(n)))),
    "label_do_action_seq": (2, lambda n: wrap("".join("  do %d i = 1, 2\n    x = 1\n%d a(i) = x\n" % (10 + k, 10 + k)
                                                      for k in range(n)))),
    "shared_label_action_seq": (2, lambda n: wrap("".join(
        "  do %d i = 1, 2\n  do %d j = 1, 2\n    x = 1\n%d a(i) = x\n" % (10 + k, 10 + k, 10 + k) for k in range(n)))),
    "select_seq": (2, lambda n: wrap("  select case (i)\n  case (1)\n    x = 1\n  case default\n    x = 2\n  end select\n" * n)),
    "subroutine_seq": (2, lambda n: "".join("subroutine s%d(x)\n  real :: x\n  x = 1\nend subroutine s%d\n" % (k, k)
                                            for k in range(n))),
    "module_contains_seq": (2, lambda n: "module mm\ncontains\n" + "".join(
        "  function f%d(x)\n    real :: x, f%d\n    f%d = x\n  end function f%d\n" % (k, k, k, k) for k in range(n))
        + "end module mm\n"),
    "comment_seq": (2, lambda n: wrap("  ! a comment\n  x = 1\n" * n)),
    "format_seq": (2, lambda n: wrap("".join("%d format (1x, i4, 'a', f8.3)\n" % (100 + k) for k in range(n)))),
}

# every binary operator level with a parenthesised right (and left) operand at each nesting level
_OPNEST = {"and": (".and.", "l", "m"), "or": (".or.", "l", "m"), "eqv": (".neqv.", "l", "m"), "dot_rel": (".gt.", "l", "b"),
           "sym_rel": ("<=", "l", "b"), "add": ("-", "x", "b"), "mul": ("/", "x", "b"), "pow": ("**", "x", "b"),
           "cat": ("//", "s", "s"), "defop": (".myop.", "x", "b")}
for _k, (_op, _lhs, _a) in _OPNEST.items():
    FAMILIES["paren_right_" + _k] = (2, lambda d, o=_op, t=_lhs, a=_a: wrap(
        "  %s = %s\n" % (t, ("(%s %s " % (a, o)) * d + a + ")" * d)))
    FAMILIES["paren_left_" + _k] = (2, lambda d, o=_op, t=_lhs, a=_a: wrap(
        "  %s = %s\n" % (t, "(" * d + a + (" %s %s)" % (o, a)) * d)))
# actual arguments of intrinsics that contain a '=' which is not a keyword's (<=, >=, /=, ==) or is one
for _k, _op in (("le", "<="), ("ge", ">="), ("ne", "/="), ("eq", "=="), ("lt", "<")):
    FAMILIES["intrinsic_arg_" + _k] = (2, lambda d, o=_op: wrap(
        "  l = %s\n" % (("any(b %s (" % o) * d + "c" + "))" * d)))
FAMILIES["intrinsic_arg_keyword"] = (2, lambda d: wrap("  x = " + "abs(a = (" * d + "b" + "))" * d + "\n"))
FAMILIES["call_intrinsic_arg_le"] = (2, lambda d: wrap("  call sub(" + "any(b <= (" * d + "c" + "))" * d + ")\n"))
# nests of intrinsic function references (linear on the pinned tree, unlike user-function nests)
FAMILIES["intrinsic_nest_generic"] = (2, lambda d: wrap("  x = " + "sin(" * d + "b" + ")" * d + "\n"))
FAMILIES["intrinsic_nest_specific"] = (2, lambda d: wrap("  x = " + "dsqrt(" * d + "b" + ")" * d + "\n"))
FAMILIES["intrinsic_nest_mixed"] = (2, lambda d: wrap(
    "  x = " + "".join(("dsqrt(", "Dabs(", "alog(", "SNGL(", "float(")[k % 5] for k in range(d)) + "b" + ")" * d + "\n"))
FAMILIES["intrinsic_nest_two_args"] = (2, lambda d: wrap("  x = " + "amax1(c, " * d + "b" + ")" * d + "\n"))
FAMILIES["intrinsic_nest_f2008"] = (2, lambda d: wrap("  x = " + "erf(gamma(" * d + "b" + "))" * d + "\n"), ("f2008",))
FAMILIES["if_cond_paren_and"] = (2, lambda d: wrap("  if (" + "(m .and. " * d + "m" + ")" * d + ") x = 1\n"))

EXPR_NEST = tuple(k for k in FAMILIES if k.startswith(("paren_right_", "paren_left_", "if_cond_paren", "intrinsic_arg_",
                                                        "call_intrinsic_arg", "intrinsic_nest_"))) + ("parens", "signed_parens", "plus_signed", "signed_sum", "not_parens", "call_nest", "index_nest",
             "mixed_nest", "array_ctor_nest")
# recorded findings (KNOWN_FINDINGS.txt): families that are exponential on the pinned tree.  They stay in the
# catalogue (signature growth:<family>) so that the finding is re-confirmed on every run.
KNOWN_EXPONENTIAL = ("label_do_action_nest", "call_nest", "index_nest", "mixed_nest")
FAMILIES["label_do_action_nest"] = (2, lambda d: wrap(nest(lambda k: "do %d i = 1, 2\n" % (10 + k),
                                                           lambda k: "%d b = x\n" % (10 + k), d)))


class Budget(BaseException):
    pass


def attempts(src, std, limit=None, keep_comments=False):
    """number of Base.__new__ calls (all: reader and string arguments); None if limit exceeded.
    Counted with a profile hook on the code object of Base.__new__: wrapping the method instead would put an
    extra C-level call on every recursion level and exhaust CPython's fixed C recursion limit much earlier."""
    import sys
    import fp
    code = fp.utils.Base.__new__.__code__
    cnt = [0]
    sys.setrecursionlimit(max(sys.getrecursionlimit(), 12000))

    def prof(frame, event, arg):
        if event == "call" and frame.f_code is code:
            cnt[0] += 1
            if limit is not None and cnt[0] > limit:
                raise Budget()
    sys.setprofile(prof)
    try:
        try:
            o = fp.parse(src, std=std, ignore_comments=not keep_comments)
        except Budget:
            return None, "budget"
    finally:
        sys.setprofile(None)
    if o.kind == "escape:Budget":
        return None, "budget"
    return cnt[0], o.kind


def measure(arg):
    name, std, sizes = arg
    fam = FAMILIES[name]
    deg, build = fam[0], fam[1]
    counts = []
    limit = None
    for n in sizes:
        c, kind = attempts(build(n), std, limit=limit, keep_comments=(name == "comment_seq"))
        counts.append((n, c, kind))
        if c is None or kind != "tree":
            break
        # stop a run-away: no later member may cost more than 2^k x (size ratio)^k x this count, and never
        # more than a fixed ceiling
        limit = min(c * (2 ** (deg + 2)) + 1000, 400000)
    return counts


def judge(name, std, deg, counts):
    fails = []
    by = {n: (c, k) for n, c, k in counts}
    for n0, c0, k0 in counts:
        if k0 not in ("tree", "budget"):
            fails.append(("family_rejected:" + name, "%s(%d) under %s is not accepted: %s" % (name, n0, std, k0)))
            break
        if 2 * n0 not in by or c0 is None:
            continue
        c1, k1 = by[2 * n0]
        if k1 == "tree" and c1 <= (2 ** deg) * c0:
            continue
        if k1 in ("tree", "budget"):
            fails.append(("growth:" + name, "%s under %s: attempts(%d)=%s, attempts(%d)=%s exceeds 2^%d x"
                          % (name, std, n0, c0, 2 * n0, "more than the budget" if c1 is None else c1, deg)))
            break
    return fails


def run(ctx):
    proof = common.leg_p(ctx, TARGETS)
    import engine_corr
    sizes = (4, 8, 16) if ctx.tier == "quick" else (3, 4, 6, 8, 12, 16, 24, 32, 48, 64, 96, 128)
    xsizes = (3, 6, 12) if ctx.tier == "quick" else (2, 3, 4, 5, 6, 8, 10, 12)     # expression nesting (deeper nests hit CPython's C recursion limit)
    csizes = (2, 5) if ctx.tier == "quick" else (2, 4, 7, 10)
    jobs = []
    cc = []
    for name, fam in sorted(FAMILIES.items()):
        stds = fam[2] if len(fam) > 2 else ("f2003", "f2008")
        for std in stds:
            jobs.append((name, std, (3, 6, 12) if name in KNOWN_EXPONENTIAL else xsizes if name in EXPR_NEST else sizes))
            if name not in KNOWN_EXPONENTIAL:
                # (the correspondence harness wraps Base.__new__, which costs C stack: shallow nests only)
                for n in ((2, 4) if name in EXPR_NEST else csizes):
                    cc.append((std, fam[1](n), dict(ignore_comments=name != "comment_seq")))
    # Leg C: the model's constructor-call count and statement-level match count are EXACTLY those of the
    # implementation on the catalogue programs (reader-level calls)
    corr = engine_corr.corr_cases(cc)
    corr["samples"] = [dict(std=cc[0][0], source=cc[0][1])]
    failures = []
    table = {}
    for job, (st, r) in zip(jobs, pool.pmap(measure, jobs, chunksize=1)):
        name, std, _ = job
        if st != "ok":
            failures.append(("harness_error", r[:300], dict(job=list(job))))
            continue
        table["%s/%s" % (name, std)] = [c for _, c, _ in r]
        deg = FAMILIES[name][0]
        for sig, desc in judge(name, std, deg, r):
            n_bad = r[-1][0]
            failures.append((sig, desc, dict(family=name, std=std, sizes=list(job[2]), counts=r,
                                             source=FAMILIES[name][1](n_bad), job=list(job))))
    e2e = dict(cases=sum(len(j[2]) for j in jobs), distinct=len(jobs), failures=failures, counts=table,
               rule="catalogue of %d size-indexed families (expression nesting, operator chains, construct nesting "
                    "incl. labelled and shared-label DO, repetition of statements / loops / program units) x both "
                    "standards, sizes %s: every member accepted, and attempts(f(2n)) <= 2^k_f * attempts(f(n)) for the "
                    "degree k_f fixed per family (1 or 2), counting every Base.__new__ call (reader and string "
                    "arguments); a run-away is cut off by a call budget" % (len(FAMILIES), list(sizes)),
               samples=[dict(family="if_nest", n=3, source=FAMILIES["if_nest"][1](3))])
    return common.finish(ctx, proof, corr, e2e, extra_assumptions=[
        "proved (every table, oracle, input): the statement-level work is linear -- no (line, class) pair is matched "
        "twice; the number of rule-constructor calls has no such theorem (it is exponential for one recorded family); "
        "for the catalogue it is measured on the implementation, and the engine model's count is checked to be "
        "exactly the implementation's reader-level count on the same programs",
        "expression-level constructor calls (string arguments) are outside the engine model: measured only"])


def replay(ctx, data):
    if "job" in data:
        name, std, sizes = data["job"]
        r = measure((name, std, tuple(sizes)))
        return not judge(name, std, FAMILIES[name][0], r)
    return True
