"""Writes MANIFEST.json from the table below (kept in one place so that it is always valid)."""
import json
import os

VERIF = os.path.dirname(os.path.dirname(os.path.abspath(__file__)))
CLAIMED = {
    # pid: (design_ref, level text, level_note, technique)
}
NOT_YET = {}


def load():
    import importlib.util
    spec = importlib.util.spec_from_file_location("claims", os.path.join(VERIF, "tools", "claims.py"))
    m = importlib.util.module_from_spec(spec)
    spec.loader.exec_module(m)
    return m


def main():
    m = load()
    checks = []
    for pid in sorted(m.CLAIMED):
        c = m.CLAIMED[pid]
        checks.append(dict(
            property_id=pid,
            quick_cmd="/venv/bin/python tools/check.py %s --tier quick" % pid,
            thorough_cmd="/venv/bin/python tools/check.py %s --tier thorough" % pid,
            evidence_file="evidence/%s.json" % pid,
            replay_cmd_template="/venv/bin/python tools/check.py %s --replay {path}" % pid,
            engine="coq-proof+correspondence",
            level_claimed=dict(category="proof", text=c["text"], design_ref=c["design_ref"]),
            level_note=c["note"], technique=c["technique"]))
    props = [json.loads(l)["id"] for l in open(os.path.join(VERIF, "properties.jsonl"))]
    na = [dict(property_id=p, reason=m.NOT_CLAIMED.get(p, "not yet covered by the machinery (work in progress)"))
          for p in props if p not in m.CLAIMED]
    man = dict(
        version=1,
        setup_cmd="sh tools/setup.sh",
        hooks=dict(guard="FPARSER_VERIF", enable="no hooks are needed: Base.__new__ is wrapped from the harness, "
                   "reader and symbol-table state are public; the guard name is reserved and unused",
                   baseline_off_cmd="cd /repo && /venv/bin/python -m pytest -q -p no:cacheprovider --timeout=900",
                   source_commits=m.FIX_COMMITS, add_only=True),
        engines=[dict(name="coq-proof+correspondence", path="coq/ ocaml/ tools/",
                      serves_properties=sorted(m.CLAIMED),
                      kind_free_text="Gallina models + theorems (Coq 8.16.1), tables regenerated from the live "
                      "classes on every run, extracted OCaml model run against the real fparser, end-to-end "
                      "property checks as failing-input search")],
        checks=checks, not_applicable=na,
        notes="Every check: regenerate coq/Gen from /repo, rebuild Properties/<id>.vo, correspondence (model vs "
              "implementation), end-to-end search on the implementation; verdict logic in DESIGN.md 2.4. "
              "fix: commits in /repo are listed under hooks.source_commits (they are repairs, not hooks).")
    with open(os.path.join(VERIF, "MANIFEST.json"), "w") as f:
        json.dump(man, f, indent=1)
    print("MANIFEST.json: %d checks, %d not claimed" % (len(checks), len(na)))


if __name__ == "__main__":
    main()
