"""A catalogue of less usual but valid statement forms (optional parts empty, optional parts doubled up,
subscripted designators, boundary spellings).  Used where any input is admissible: C01 checks every entry
that parses (round trip), C06 only that nothing but FortranSyntaxError escapes."""
BODIES = [
    # CALL: designators with and without subscripts x empty / absent / non-empty argument lists
    "call a", "call a()", "call a(b, c)", "call one%run()", "call one%run", "call many(1)%run(k)",
    "call objs(i)%draw()", "call objs(i)%draw", "call grid%cells(i+1, j)%state%reset()",
    "if (a) call objs(i)%draw()", "call a(1)%b(2)%c(3)", "call a(:)%b()", "call a%b%c", "call a(b=1)",
    "call a(*10, b)\n10 continue", "call a ( )", "call a%b ( 1 )",
    # function references with empty argument lists, nested designators
    "x = f()", "x = a%f()", "x = a(1)%f()", "x = a(1)%b(2)%f() + g()", "x = f(g())", "x = f(a(1)%b)",
    # a unary operator in front of an intrinsic reference, with and without the blank
    "x = - sin(y)", "x = -sin(y)", "l = .not. present(b)", "l = .not.present(b)", "n = - size(a, dim=1)",
    "x = + abs(y) - (- max(a, b))", "if (.not. allocated(a)) x = - huge(1)", "x = .myop. sin(y)", "x = -  f(y) ** (- 2)",
    # subscript triplets: every combination of present / absent lower bound, upper bound and stride
    "x = a(:)", "x = a(1:)", "x = a(:n)", "x = a(1:n)", "x = a(::2)", "x = a(1::2)", "x = a(:n:2)", "x = a(1:n:2)",
    "x = a(i, :n-1:k)", "a(1:n:(k+1)) = 0", "x = a(1:n:f(k-3))", "x = a(n:1:-(k+1))", "x = a(::max(k, 2))", "x = a(:n:2*(k+1))",
    "x = a(1:2)%b", "x = a%b(1:2)", "x = s(1:2)(3:4)", "x = 'abc'(1:2)", "x = a(i)(1:2)", "x = [a(1)%b, c]",
    # I/O with minimal and maximal control lists
    "write(6, grp)", "read(5, grp, iostat=i)", "write(6, fmtvar) i", "write(unit=6, nml=grp)", "read(5, nml=grp)",
    "write(*,*)", "read(*,*)", "print *", "print *, a", "print 10\n10 format (a)", "write(6, 10)\n10 format ()",
    "read(5, *, iostat=i) a", "write(unit=6, fmt=*) a", "write(6, fmt='(a)') 'x'", "read 10, a\n10 format (i3)",
    "open(10)", "close(10)", "rewind 10", "rewind(10)", "backspace 10", "endfile 10", "flush 10", "flush(10)",
    "inquire(10, exist=l)", "wait(10)",
    # bare and fully dressed control statements
    "return", "return 1", "stop", "stop 1", "stop 'x'", "continue", "10 continue", "go to 10\n10 continue",
    "goto 10\n10 continue", "go to (10, 20) i\n10 continue\n20 continue", "go to (10), i\n10 continue",
    "if (a) 10, 20, 30\n10 continue\n20 continue\n30 continue", "if (a) 10, 10, 20\n10 continue\n20 continue",
    "assign 10 to i\n10 continue", "pause", "pause 1",
    # constructs with empty bodies and optional parts
    "do\nend do", "do i = 1, 2\nend do", "do i = 1, 2, 3\nend do", "do while (a)\nend do", "do, i = 1, 2\nend do",
    "do 10 i = 1, 2\n10 continue", "do 10, i = 1, 2\n10 continue", "do 10 i = 1, 2\ndo 10 j = 1, 2\n10 continue",
    "n: do\nend do n", "n: do i = 1, 2\ncycle n\nexit n\nend do n", "do i = 1, 2\ncycle\nexit\nend do",
    "if (a) then\nend if", "if (a) then\nelse\nend if", "if (a) then\nelse if (b) then\nelse\nend if",
    "n: if (a) then\nelse if (b) then n\nelse n\nend if n", "select case (i)\nend select",
    "select case (i)\ncase default\nend select", "select case (i)\ncase (1)\ncase (2:)\ncase (:0)\ncase (3, 5:6)\nend select",
    "n: select case (i)\ncase (1) n\ncase default n\nend select n", "where (a) b = 1",
    "where (a)\nend where", "where (a)\nelsewhere\nend where", "where (a)\nelsewhere (b)\nelsewhere\nend where",
    "n: where (a)\nelsewhere (b) n\nelsewhere n\nend where n", "forall (i = 1:2) a(i) = 1",
    "forall (i = 1:2)\nend forall", "forall (i = 1:2, j = 1:3:2, a(i) > 0)\nend forall",
    "associate (x => y)\nend associate", "associate (x => y, z => w + 1)\nend associate",
    "select type (p)\nend select", "select type (q => p)\ntype is (integer)\nclass is (t)\nclass default\nend select",
    "n: select type (p)\ntype is (real) n\nclass default n\nend select n",
    # declarations with empty / doubled optional parts
    "integer i", "integer :: i", "integer, save :: i", "integer(4) i", "integer(kind=4) i", "integer*4 i",
    "character c", "character*4 c", "character(4) c", "character(len=4) c", "character(len=*) c", "character(*) c",
    "character(len=4, kind=1) c", "character(4, 1) c", "character(kind=1) c", "character(kind=1, len=4) c",
    "character*(*) c", "character*(4) c", "character c*4", "character c(3)*4", "character(kind=kind('a'), len=3) :: c",
    "character(kind=kind('a')) :: c", "character(len('ab'), kind('a')) :: c", "character(kind=1, len=len('abc')) :: c",
    "character :: a*(n+1) = 'x'", "character c*(2+1)", "read 100\n100 format (i3)", "read 100, a\n100 format (i3)", "real a(3)", "real a(3), b(2, 2)",
    "real, dimension(3) :: a", "real :: a = 1.0", "real :: a(2) = (/ 1.0, 2.0 /)", "real, pointer :: p => null()",
    "double precision d", "doubleprecision d", "double complex z", "type(t) x", "type(t) :: x", "class(t), pointer :: x",
    "class(*), pointer :: x", "procedure(), pointer :: p", "procedure(f), pointer :: p => null()",
    "procedure(real), pointer :: p", "implicit none", "implicit real (a-h, o-z)", "implicit integer (i), real(8) (r)",
    "parameter (a = 1)", "parameter (a = 1, b = 2)", "dimension a(3)", "dimension a(3), b(2)", "save", "save a",
    "save /c/", "save :: a, /c/", "common a", "common /c/ a", "common // a", "common /c/ a, b /d/ e", "common a, b(3)",
    # substrings of character literals (the parent string is a literal with blanks, brackets, doubled quotes, a kind prefix)
    "c = \"hello world\"(1:5)", "c = 'it''s'(2:3)", "c = k_\"a b\"(1:1)", "c = 'a(b)'(2:)", "c = 'x,y' // \"p q\"(:1)", "print *, 'a b'(1:2), \"c, d\"",
    "call s('a, b', \"c(d\", 'e)f')", "c = f('(', \")\")", "x = g('a''b, c', [1, 2], (/ 'p q', 'r,s' /))",
    # implied DO in I/O lists, array constructors and DATA, with and without the stride, nested
    "write(*,*) (a(i), i=1,n)", "print *, (a(i), i=1,n,2)", "read(5,*) ((b(i,j), i=1,2), j=1,3)", "write(6,*) x, (a(i), b(i), i=1,n), y",
    "print *, (a(i), (b(i,j), j=1,i), i=1,n)", "x = [(i, i=1,n)]", "x = (/ (i*2, i=1,n,2) /)", "x = [((i+j, i=1,2), j=1,3)]",
    "data ((b(i,j), i=1,2), j=1,3) /6*0/", "write(*,'(3i4)') (k(i), i=lo,hi)",
    "data a /1/", "data a, b /1, 2/", "data a /1/, b /2/", "data a /3*1/", "data (a(i), i = 1, 3) /1, 2, 3/",
    "equivalence (a, b)", "equivalence (a, b), (c, d(1))", "external f", "external :: f, g", "intrinsic sin",
    "intrinsic :: sin, cos", "namelist /n/ a", "namelist /n/ a, b /m/ c", "intent(in) a", "intent(in out) :: a",
    "intent(inout) :: a", "optional a", "optional :: a, b", "pointer a", "pointer :: a(:)", "target a", "target :: a(3)",
    "allocatable a", "allocatable :: a(:), b(:, :)", "volatile a", "asynchronous :: a", "value a", "protected a",
    "public", "private", "public a", "private :: a, b", "public :: operator(+), assignment(=)", "bind(c) :: a",
    "bind(c, name='x') :: a", "enum, bind(c)\nenumerator a\nenumerator :: b = 2, c\nend enum",
    "use m", "use :: m", "use, intrinsic :: iso_c_binding", "use, non_intrinsic :: m", "use m, only:", "use m, only: a",
    "use m, only: a, b => c", "use m, a => b", "use m, operator(.x.) => operator(.y.)", "use m, only: operator(+)",
    "use m, only: assignment(=)", "import", "import a", "import :: a, b",
    "type t\nend type", "type t\nend type t", "type :: t\ninteger i\nend type", "type, public :: t\nend type",
    "type, extends(b) :: t\nend type", "type, abstract :: t\nend type", "type, bind(c) :: t\nend type",
    "type t\nsequence\ninteger i\nend type", "type t\nprivate\ninteger i\nend type", "type t(k)\ninteger, kind :: k\nend type", "type t(k)\ninteger u, kind :: k\nend type", "type t(k, l)\ninteger(4), kind :: k\ninteger, len :: l = 2\nend type",
    "type t\ncontains\nprocedure p\nend type", "type t\ncontains\nprocedure :: p\nprocedure, nopass :: q => r\nend type",
    "type t\ncontains\nprivate\nprocedure p\ngeneric :: g => p\nfinal :: f\nend type",
    "type t\ncontains\nprocedure(i), deferred :: p\nend type", "type t\nprocedure(), pointer, nopass :: p\nend type",
    "interface\nend interface", "interface g\nend interface", "interface g\nend interface g",
    "interface operator(+)\nend interface", "interface operator(+)\nend interface operator(+)",
    "interface assignment(=)\nend interface assignment(=)", "abstract interface\nend interface",
    "interface\nsubroutine s()\nend subroutine\nend interface", "interface\nfunction f()\nend function f\nend interface",
    "interface g\nmodule procedure a\nmodule procedure b, c\nprocedure d\nend interface",
    "allocate(a(3), stat=i, errmsg=m)", "allocate(a, source=b, errmsg=m)", "allocate(a(3), errmsg=m)", "allocate(a(3), b(2), stat=i)",
    "allocate(a(3))", "allocate(t :: a)", "allocate(a, source=b)",
    "allocate(character(len=3) :: c)", "allocate(a(0:2, -1:1))", "deallocate(a)", "deallocate(a, b, stat=i, errmsg=m)",
    "nullify(p)", "nullify(p, q%r)", "p => a", "p => null()", "p(1:) => a", "p(1:2, 1:3) => a", "a%p => f(x)",
    "entry e", "entry e()", "entry e(a, b)", "entry e() result(r)", "entry e(*)",
    "format (a)", "10 format (a)", "10 format (i3, 2x, a, /, f6.2)", "10 format (3(i3, a))", "10 format ('a''b', \"c\")",
    "10 format (1p, e12.4, 0p)", "10 format (a, :, i3)", "10 format (t10, tl2, tr3, a)", "10 format (5hhello)",
    "10 format (bn, bz, ss, sp, s, i3)", "10 format (*(i3))",
]
# unusual program structures (whole sources)
UNITS = [
    "end\n", "program p\nend\n", "program p\nend program\n", "program p\nend program p\n", "x = 1\nend\n", "integer i\nend program\n",
    "module m\nend\n", "module m\nend module\n", "module m\nend module m\n", "module m\ncontains\nend module m\n",
    "module m\ninteger i\ncontains\nsubroutine s\nend subroutine s\nend module m\n",
    "module m\ncontains\nsubroutine s\ncontains\nsubroutine t\nend subroutine t\nend subroutine s\nfunction f()\nf = 1\nend function f\nend module m\n",
    "subroutine s\nend\n", "subroutine s()\nend subroutine\n", "subroutine s\ncontains\nsubroutine t\nend subroutine t\nend subroutine s\n",
    "function f()\nf = 1\nend\n", "function f() result(r)\nr = 1\ncontains\nfunction g()\ng = 2\nend function g\nend function f\n",
    "recursive subroutine s(a)\nentry e(a)\nend subroutine s\n", "pure elemental integer function f(x)\ninteger, intent(in) :: x\nf = x\nend function f\n",
    "block data\nend block data\n", "block data b\ncommon /c/ a\ndata a /1/\nend block data b\n", "block data b\nend\n",
    "program p\ncontains\nsubroutine s\nend subroutine s\nend program p\n", "program p\nuse m\nimplicit none\ninteger i\ni = 1\ncontains\nfunction f()\nf = 1\nend function f\nend program p\n",
    "module m\nend module m\nprogram p\nuse m\nend program p\n", "subroutine a\nend subroutine a\nsubroutine b\nend subroutine b\nprogram p\nend program p\n",
    "program p\nend program p\nsubroutine a\nend subroutine a\n", "module m\ninterface\nsubroutine s()\nend subroutine s\nend interface\nend module m\n",
    "module m\ninterface g\nmodule procedure s\nend interface g\ncontains\nsubroutine s()\nend subroutine s\nend module m\n",
    "module m\ntype t\ninteger i\ncontains\nprocedure :: p\nend type t\ncontains\nsubroutine p(x)\nclass(t) :: x\nend subroutine p\nend module m\n",
    "module m\nprivate\npublic :: s\ncontains\nsubroutine s\nend subroutine s\nend module m\n",
    "module m\nuse, intrinsic :: iso_c_binding\nimplicit none\nsave\ninteger(c_int) :: i\nend module m\n",
    "module m\nend module m\nsubmodule (m) sm\nend submodule sm\n", "module m\nend module m\nsubmodule (m) sm\ncontains\nmodule procedure mp\nend procedure mp\nend submodule sm\n",
    "! only a comment\n", "! c\nprogram p\n! d\nend program p\n! e\n", "#define X\nprogram p\nend program p\n",
    "program p\n10 continue\n20 end program p\n", "subroutine s\nreturn\nend\nsubroutine t\nreturn\nend\n",
    "program p\nif (a) then\nelse\nend if\ndo i = 1, 2\nend do\nend program p\n", "program p\nblock\nend block\nend program p\n",
    "program p\ninteger :: i\nblock\ninteger :: j\nblock\ninteger :: k\nend block\nend block\nend program p\n",
    "function f(a, b, *)\nend function\n", "subroutine s(*)\nreturn 1\nend subroutine\n", "integer function f()\nentry g()\nend function\n",
    "module procedure_m\nend module procedure_m\n", "program end_p\nend program end_p\n", "subroutine function(x)\nend subroutine function\n",
]
WRAPS = ["subroutine w\n%s\nend subroutine w\n", "module mm\n%s\nend module mm\n", "program p\n%s\nend program p\n",
         "function w()\n%s\nend function w\n", "%s\nend\n"]


def sources(rng=None, n=None):
    """every body in every wrap (n None) or n sampled ones"""
    allp = [w % b for b in BODIES for w in WRAPS] + UNITS
    if n is None or rng is None:
        return allp
    return [rng.choice(allp) for _ in range(n)]
