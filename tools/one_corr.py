"""Correspondence between the Gallina model of the fparser1 block matcher (coq/Model/One.v, extracted to
ocaml/_build/onedriver) and fparser.one: same reader items; the statement-level decisions (which class
accepts a line inside which block, validity) are taken from the real run; compared: the complete nesting
(depth, class, item) of the resulting tree, or the fact that parsing stopped with an error."""
import os
import subprocess

import one_util as U

VERIF = os.path.dirname(os.path.dirname(os.path.abspath(__file__)))
DRIVER = os.path.join(VERIF, "ocaml", "_build", "onedriver")

_cls = {}


def cidx(name):
    if name not in _cls:
        _cls[name] = len(_cls) + 1
    return _cls[name]


def fills(stmt):
    return isinstance(stmt, U.BeginStatement) and type(stmt).__name__ != "If"


def real_run(src, fixed):
    from fparser.api import get_reader
    from fparser.one.parsefortran import FortranParser
    from fparser.one.block_statements import Do
    FortranParser.cache.clear()
    reader = get_reader(src, not fixed, False, ignore_comments=True)
    seen, order = {}, []
    orig = reader.next

    def nxt(ignore_comments=None):
        it = orig(ignore_comments=ignore_comments)
        if id(it) not in seen:
            seen[id(it)] = len(order)
            order.append(it)
        return it
    reader.next = nxt
    parser = FortranParser(reader, ignore_comments=True)
    err = None
    # record every statement object the real run builds (harness-side wrapper, no hook in the source):
    # (block it was built for, item) -> [statement objects in order]
    made = {}
    orig_init = U.Statement.__init__

    def logging_init(self, parent, item):
        try:
            orig_init(self, parent, item)
        finally:
            if item is not None:
                made.setdefault((id(parent), id(item)), []).append(self)
    U.Statement.__init__ = logging_init
    try:
        parser.parse()
    except Exception as e:   # noqa
        err = type(e).__name__
    finally:
        U.Statement.__init__ = orig_init
    blocks = {}
    shape = []

    def rec(b, d, key):
        blocks[key] = b
        for c in b.content:
            idx = seen.get(id(getattr(c, "item", c)), -1)
            if isinstance(c, U.EndStatement):
                shape.append((d, 0, idx))
            elif fills(c):
                shape.append((d, cidx(type(c).__name__), idx))
                rec(c, d + 1, idx)
            elif isinstance(c, U.Statement):
                shape.append((d, cidx(type(c).__name__), idx))
            else:
                shape.append((d, -1, seen.get(id(c), -1)))
    if parser.block is not None:
        rec(parser.block, 0, len(order))
    return dict(err=err, shape=shape, blocks=blocks, items=order, Do=Do, top=parser.block, made=made)


class OneModel:
    def __init__(self):
        self.p = subprocess.Popen([DRIVER], stdin=subprocess.PIPE, stdout=subprocess.PIPE, text=True, bufsize=1)
        assert self.p.stdout.readline().strip() == "READY"

    def close(self):
        try:
            self.p.stdin.write("QUIT\n")
            self.p.stdin.flush()
            self.p.wait(timeout=5)
        except Exception:   # noqa
            self.p.kill()

    def run(self, real, dup=False):
        items, blocks, Do = real["items"], real["blocks"], real["Do"]
        w = self.p.stdin.write
        w("CASE %d %d\n" % (1 if dup else 0, len(items)))
        for k, it in enumerate(items):
            w("I %d %d\n" % (k, it.label if getattr(it, "label", None) is not None else -1))
        self.p.stdin.flush()
        guessed = 0
        while True:
            ln = self.p.stdout.readline()
            if not ln:
                raise RuntimeError("onedriver died")
            parts = ln.split()
            if parts[0] in ("E", "C"):
                b = blocks.get(int(parts[1]))
                it = items[int(parts[2])]
                built = real["made"].get((id(b), id(it)), []) if b is not None else []
                valid = [c for c in built if getattr(c, "isvalid", False)]
                if parts[0] == "E":
                    ends = [c for c in built if isinstance(c, U.EndStatement)]
                    if built:
                        ans = "1" if ends and ends[0].isvalid else "0"
                    else:
                        guessed += 1
                        ans = "1" if b is not None and b.end_stmt_cls.match(it.get_line()) else "0"
                else:
                    valid = [c for c in valid if not isinstance(c, U.EndStatement)]
                    if valid:
                        found = valid[0]
                        if fills(found):
                            el = getattr(found, "endlabel", None) if isinstance(found, Do) else None
                            ans = "B %d %d %d" % (cidx(type(found).__name__), isinstance(found, Do), el if el else -1)
                        else:
                            ans = "S %d %d" % (cidx(type(found).__name__), 1 if found.ignore else 0)
                    elif built:
                        ans = "N"
                    else:
                        guessed += 1
                        ans = "N"
                        if b is not None and hasattr(b, "classes"):
                            line = it.get_line()
                            for cls in b.classes:
                                if cls.match(line):
                                    ans = "S %d 0" % cidx(cls.__name__)
                                    break
                w(ans + "\n")
                self.p.stdin.flush()
            elif parts[0] == "RES":
                head, sh = ln[4:].split("|")
                kind, ended, rest = head.split()
                nums = [int(x) for x in sh.split()]
                shape = [tuple(nums[i:i + 3]) for i in range(0, len(nums), 3)]
                return dict(kind=kind, ended=int(ended), rest=int(rest), shape=shape, guessed=guessed)
            else:
                raise RuntimeError("onedriver said: " + ln)


def compare(src, fixed, model=None, dup=False):
    own = model is None
    if own:
        model = OneModel()
    try:
        real = real_run(src, fixed)
        m = model.run(real, dup=dup)
    finally:
        if own:
            model.close()
    diffs = []
    if real["err"]:
        if m["kind"] != "error":
            diffs.append("real parse stopped with %s, model: %s" % (real["err"], m["kind"]))
    else:
        if m["kind"] != "ok":
            diffs.append("model: %s, real parse succeeded" % m["kind"])
        elif m["shape"] != real["shape"]:
            i = next((k for k in range(min(len(m["shape"]), len(real["shape"]))) if m["shape"][k] != real["shape"][k]),
                     min(len(m["shape"]), len(real["shape"])))
            diffs.append("nesting differs at entry %d: model %r real %r (lengths %d / %d)"
                         % (i, m["shape"][i:i + 3], real["shape"][i:i + 3], len(m["shape"]), len(real["shape"])))
        elif m["rest"] != 0:
            diffs.append("model left %d items unread" % m["rest"])
    return (not diffs), diffs, m, real


_model = []


def _worker(case):
    src, fixed = case
    if not _model:
        _model.append(OneModel())
    try:
        ok, diffs, m, real = compare(src, fixed, model=_model[0])
    except RuntimeError:
        _model.clear()
        raise
    return dict(ok=ok, diffs=diffs, err=real["err"], guessed=m["guessed"], nitems=len(real["items"]))


def corr_cases(cases):
    import pool
    res = pool.pmap(_worker, cases, chunksize=4)
    dis, harness, hist = [], [], {}
    guessed = 0
    for case, (st, r) in zip(cases, res):
        if st != "ok":
            harness.append(dict(case=case, error=r))
            continue
        hist[r["err"] or "parsed"] = hist.get(r["err"] or "parsed", 0) + 1
        guessed += r["guessed"]
        if not r["ok"]:
            dis.append(dict(source=case[0], fixed=case[1], diffs=r["diffs"]))
    return dict(cases=len(cases), distinct=len(set(c[0] for c in cases)), outcome_histogram=hist, disagreements=dis,
                oracle_answers_guessed=guessed, harness_errors=harness[:3], n_harness_errors=len(harness))
