"""Free-form and fixed-form layouts of a generated program (list of gen.Stmt).

A layout decides, per statement: indentation, where it is broken over continuation lines (token
boundaries, or inside a character literal with a leading '&'), whether continuation lines start
with '&', which blank/comment lines are interleaved (between statements and between continuation
lines), trailing comments, and whether consecutive statements are joined with ';'.  Keyword case
can be changed.  Everything is derived from one random.Random so a layout replays exactly.
The functions return the physical lines together with what a correct reader must deliver."""
import re

import lexer

COMMENT_TEXTS = ["plain note", "it's quoted", "say \"hi\"", "a & b", "bang ! inside", "x = 1; y = 2",
                 "(unbalanced", "trailing &", "'", "$omp parallel do", "dir$ ivdep", "MiXeD Case",
                 "DIR$ IVDEP", "Dir$ vector always", "GCC$ unroll 4", "$OMP END PARALLEL DO", "gcc$ ivdep",
                 "$ x = 1", "$   & + 2"]
KEYWORDS_CASES = ("keep", "upper", "lower")


def split_tokens(text):
    """[(start, end, kind)] of the tokens of a statement text (independent lexer)"""
    out = []
    pos = 0
    while pos < len(text):
        m = lexer._TOKEN.match(text, pos)
        k = m.lastgroup
        if k != "ws":
            out.append((m.start(), m.end(), k))
        pos = m.end()
    return out


def recase(text, mode, user_names, rng=None):
    if mode == "keep":
        return text
    out = []
    pos = 0
    while pos < len(text):
        m = lexer._TOKEN.match(text, pos)
        k, t = m.lastgroup, m.group(0)
        if mode == "names":
            # the spelling of every OCCURRENCE of a user name is chosen on its own (Fortran names are case-insensitive)
            if k == "id" and t in user_names:
                t = rng.choice([t, t, t.upper(), t.lower(), t.capitalize()])
        elif k == "id" and t not in user_names or k == "dot":
            t = t.upper() if mode == "upper" else t.lower()
        elif k == "num":
            head, sep, kind = t.partition("_")
            t = (head.upper() if mode == "upper" else head.lower()) + sep + kind
        out.append(t)
        pos = m.end()
    return "".join(out)


# compound keywords that may be written without the blank (Fortran 2003 3.3.1: "blanks are optional between ...")
_TIGHT_START = [("end block data", "endblockdata"), ("end do", "enddo"), ("end if", "endif"), ("else if", "elseif"),
                ("select case", "selectcase"), ("select type", "selecttype"), ("end select", "endselect"),
                ("end program", "endprogram"), ("end subroutine", "endsubroutine"), ("end function", "endfunction"),
                ("end module", "endmodule"), ("end type", "endtype"), ("end interface", "endinterface"),
                ("end where", "endwhere"), ("end forall", "endforall"), ("end associate", "endassociate"),
                ("end block", "endblock"), ("block data", "blockdata"), ("end enum", "endenum"),
                ("end critical", "endcritical"), ("end submodule", "endsubmodule"), ("end file", "endfile"),
                ("go to", "goto"), ("double precision", "doubleprecision")]
_TIGHT_ANY = [(re.compile(r"\bgo to\b"), "goto"), (re.compile(r"\bdouble precision\b"), "doubleprecision"),
              (re.compile(r"\(in out\)"), "(inout)")]


def tighten(text):
    """the same statement with its compound keywords written without the optional blank (outside literals)"""
    for a, b in _TIGHT_START:
        if text.startswith(a) and (len(text) == len(a) or not (text[len(a)].isalnum() or text[len(a)] == "_")):
            text = b + text[len(a):]
            break
    if "'" in text or '"' in text:
        return text
    for rx, b in _TIGHT_ANY:
        text = rx.sub(b, text)
    return text


def respace(text, mode, rng):
    """the same statement with the blanks between its tokens changed: mode 'tight' removes every blank that is not
    needed to keep two tokens apart, 'wide' puts two or three blanks at every token boundary (free form: blanks
    between tokens are insignificant); tokens themselves -- literals, numbers, '(/', '::' ... -- are not touched"""
    toks = split_tokens(text)
    out = []
    for n, (a, b, k) in enumerate(toks):
        t = text[a:b]
        if n:
            pa, pb, pk = toks[n - 1]
            had_blank = pb < a
            wordish = lambda kk: kk in ("id", "num", "dot", "boz")     # noqa
            must = (wordish(pk) and wordish(k)) or ((pk, k) in (("id", "str"), ("num", "str")) and had_blank) \
                or (pk == "str" and wordish(k))
            keep_tight = (pk, k) in (("id", "str"), ("num", "str")) and not had_blank
            if mode == "tight":
                out.append(" " if must else "")
            elif keep_tight:
                out.append("")
            else:
                out.append(" " * rng.choice([2, 3]))
        out.append(t)
    return "".join(out)


class Layout:
    """result of laying out a program"""

    def __init__(self):
        self.lines = []          # physical lines
        self.stmt_span = []      # per logical statement group: (first, last) 1-based line numbers
        self.stmt_of = []        # per statement index: index into stmt_span (';'-joined share one)
        self.comments = []       # (lineno, text incl. '!', kind) in physical order; kind in full/trailing/incont
        self.features = {}

    def text(self):
        return "\n".join(self.lines) + "\n"


def free_layout(stmts, rng, user_names, p_break=0.35, p_comment=0.25, p_join=0.2, p_lit_break=0.3, p_tight=0.25, p_respace=0.2,
                case="keep", comments=True, indent_mode=None, max_breaks=3):
    L = Layout()
    feats = L.features

    def feat(k):
        feats[k] = feats.get(k, 0) + 1

    def comment_text():
        return "!" + rng.choice(["", " "]) + rng.choice(COMMENT_TEXTS)

    def maybe_between(kind):
        """blank / comment lines between physical lines"""
        n = 0
        while comments and rng.random() < p_comment and n < 3:
            n += 1
            if rng.random() < 0.3:
                L.lines.append("")
                feat("blank_" + kind)
                if kind == "full":
                    # a blank line outside a continuation is delivered as an empty comment
                    L.comments.append((len(L.lines), "", "blank"))
            else:
                ct = comment_text()
                L.lines.append(" " * rng.choice([0, 2, 7]) + ct)
                L.comments.append((len(L.lines), ct, kind))
                feat("comment_" + kind)

    i = 0
    n = len(stmts)
    while i < n:
        maybe_between("full")
        s = stmts[i]
        ind = " " * (rng.choice([0, 1, 2, 4, 7]) if indent_mode is None else indent_mode * s.depth)
        # ';' join of a run of statements (no labels on the joined ones to keep the ground truth simple)
        group = [s]
        while (i + len(group) < n and rng.random() < p_join and len(group) < 3
               and stmts[i + len(group)].kind != "format" and group[-1].kind != "format"):
            group.append(stmts[i + len(group)])
        if len(group) > 1:
            feat("semicolon_join")
            parts = []
            for k, g in enumerate(group):
                t = recase(g.text, case, user_names, rng)
                head = ("%d " % g.label if g.label is not None else "") + ("%s: " % g.name if g.name else "")
                parts.append(head + t)
            line = ind + rng.choice(["; ", ";", " ; "]).join(parts)
            tc = None
            if comments and rng.random() < p_comment:
                tc = comment_text()
                line += " " + tc
            L.lines.append(line)
            ln = len(L.lines)
            if tc:
                L.comments.append((ln, tc, "trailing"))
                feat("comment_trailing")
            L.stmt_span.append((ln, ln))
            for _ in group:
                L.stmt_of.append(len(L.stmt_span) - 1)
            i += len(group)
            continue
        text = tighten(s.text) if rng.random() < p_tight else s.text
        if s.kind not in ("format", "end_block_data", "error_stop") and "in out" not in text and rng.random() < p_respace:
            text = respace(text, rng.choice(["tight", "wide"]), rng)
        text = recase(text, case, user_names, rng)
        head = ("%d " % s.label if s.label is not None else "") + ("%s: " % s.name if s.name else "")
        toks = split_tokens(text)
        # choose break points: before token k (k >= 1), or inside a string token
        cuts = []
        if len(toks) > 1 and rng.random() < p_break:
            for k in rng.sample(range(1, len(toks)), min(len(toks) - 1, rng.randrange(1, max_breaks + 1))):
                cuts.append((toks[k][0], False))
        for (a, b, kd) in toks:
            if kd == "str" and b - a > 3 and rng.random() < p_lit_break and len(cuts) < max_breaks:
                # atoms of the literal: opening quote, body characters / doubled pairs, closing quote
                q = text[a]
                bounds = [a + 1]
                p = a + 1
                while p < b - 1:
                    p += 2 if (text[p] == q and p + 1 < b - 1 and text[p + 1] == q) else 1
                    bounds.append(p)
                # a long literal may be broken more than once (a middle line then holds neither quote)
                nb = 1 if b - a < 12 else rng.choice([1, 2, 3])
                for bd in rng.sample(bounds, min(nb, len(bounds))):
                    cuts.append((bd, True))
        if s.name and s.kind not in ("end_block_data", "error_stop") and rng.random() < 0.2:
            # the construct name alone on the first line:  "nm: &" / "keyword ..."
            cuts.append((0, False))
            feat("break_after_name")
        cuts = sorted(set(cuts))
        # drop cuts that fall inside a literal unless marked as literal cuts
        pieces = []
        prev = 0
        for (p, inlit) in cuts:
            pieces.append((text[prev:p], inlit))
            prev = p
        pieces.append((text[prev:], None))
        first = len(L.lines) + 1
        for k, (piece, inlit) in enumerate(pieces):
            if k == 0:
                line = ind + head + piece
            else:
                prev_inlit = pieces[k - 1][1]
                # extra blanks inside END BLOCK DATA / ERROR STOP are a recorded finding (probed separately)
                force = s.kind in ("end_block_data", "error_stop")
                lead = "&" if (prev_inlit or force or rng.random() < 0.5) else ""
                if lead:
                    feat("lead_amp")
                line = " " * rng.choice([0, 3, 6]) + lead + piece
            if inlit is not None:          # this piece is followed by a continuation
                if inlit:
                    line += "&"
                    feat("break_in_literal")
                else:
                    line += "&" if s.kind in ("end_block_data", "error_stop") else rng.choice([" &", "&", "  &"])
                    feat("break_at_token")
                    if comments and rng.random() < p_comment:
                        tc = comment_text()
                        line += " " + tc
                        L.lines.append(line)
                        L.comments.append((len(L.lines), tc, "trailing"))
                        feat("comment_trailing_cont")
                        maybe_between("incont")
                        continue
                L.lines.append(line)
                maybe_between("incont")
            else:
                tc = None
                if comments and rng.random() < p_comment:
                    tc = comment_text()
                    line += " " + tc
                L.lines.append(line)
                if tc:
                    L.comments.append((len(L.lines), tc, "trailing"))
                    feat("comment_trailing")
        # the last physical line holding statement text
        last = len(L.lines)
        L.stmt_span.append((first, last))
        L.stmt_of.append(len(L.stmt_span) - 1)
        i += 1
    maybe_between("full")
    return L


def squeeze(text):
    """statement text modulo blanks outside character literals"""
    out = []
    q = None
    for ch in text:
        if q:
            out.append(ch)
            if ch == q:
                q = None
        elif ch in "'\"":
            q = ch
            out.append(ch)
        elif ch in " \t":
            continue
        else:
            out.append(ch)
    return "".join(out)


# ------------------------------------------------------------------ fixed form
def fixed_layout(stmts, rng, user_names, wrap=72, contc="&", cmt="C", label_style="left", comments=True,
                 p_comment=0.2):
    """Fixed-form rendering: label in columns 1-5, continuation mark in column 6, text from column 7,
    wrapped at column `wrap` (lines are cut wherever the column falls, also inside tokens and literals)."""
    L = Layout()

    def cline():
        t = rng.choice(["plain note", "it's", "a & b", "x = 1"])
        if cmt == "!":
            return "! " + t        # column 1 (an indented '!' line makes the format detector answer free: recorded finding)
        return cmt + " " + t

    for s in stmts:
        if comments and rng.random() < p_comment:
            L.lines.append(cline())
            L.comments.append((len(L.lines), L.lines[-1], "full"))
        body = ("%s: " % s.name if s.name else "") + s.text
        lab = "" if s.label is None else str(s.label)
        # "spaced": blanks are insignificant in fixed form, also inside a label ('1 0' is label 10)
        spaced = (lab[:1] + " " + lab[1:]) if len(lab) in (2, 3, 4) else lab
        lab5 = {"left": lab.ljust(5), "right": lab.rjust(5), "mid": (" " + lab).ljust(5),
                "spaced": spaced.ljust(5)}[label_style][:5]
        width = max(1, wrap - 6)
        chunks = [body[k:k + width] for k in range(0, len(body), width)] or [""]
        # a chunk must not end with blanks inside a literal (trailing blanks of a physical line are lost: F10)
        first = len(L.lines) + 1
        for k, chn in enumerate(chunks):
            # column 6 of an initial line: a blank or (as the standard allows) a zero
            L.lines.append((lab5 + (" " if rng.random() < 0.85 else "0") if k == 0 else "     " + contc) + chn)
            if k < len(chunks) - 1 and comments and rng.random() < p_comment:
                L.lines.append(cline())
                L.comments.append((len(L.lines), L.lines[-1], "incont"))
        L.stmt_span.append((first, len(L.lines)))
        L.stmt_of.append(len(L.stmt_span) - 1)
    return L
