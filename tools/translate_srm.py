"""Reads off, for every fparser2 rule class whose match() is nothing but a call of SequenceBase.match,
SeparatorBase.match, CallBase.match / CALLBase.match or KeywordValueBase.match with constant arguments, those
arguments -- from the source of match() with ast, or, for the `<X>_List` classes that Fortran2003.py generates with
exec (no source to read), from the code object of match(): it has to be the code that the known template compiles to,
and the separator is its string constant.  Any other shape leaves the class out (listed as not modelled); an argument
that cannot be read stops the run.  Emits coq/Gen/SrmGen.v.  Fail closed."""
import ast
import inspect
import os
import textwrap

OK_SEPARATORS = set(",:%()=;/")     # characters a real-constant key (digits . + - _ letters) can neither hide nor create


def _classes():
    import fparser.two.Fortran2003 as F3
    import fparser.two.Fortran2008 as F8
    from fparser.two import utils
    out = []
    for std, mod in (("f2003", F3), ("f2008", F8)):
        for name in sorted(vars(mod)):
            c = getattr(mod, name)
            if isinstance(c, type) and issubclass(c, utils.Base) and "match" in c.__dict__:
                if std == "f2008" and getattr(F3, name, None) is c:
                    continue
                out.append((std, name, c, mod))
    return out


def _template_code(sub):
    ns = {}
    exec("def match(string): return SequenceBase.match(r',', %s, string)\n" % sub, ns)
    return ns["match"].__code__


def _from_code(name, fn):
    """a generated list class: -> separator, or None when the code is not the template's"""
    sub = name[:-5]
    co, ref = fn.__code__, _template_code(sub)
    if co.co_code != ref.co_code or co.co_names != ref.co_names or co.co_varnames != ref.co_varnames \
            or co.co_argcount != 1 or len(co.co_consts) != len(ref.co_consts):
        return None
    seps = [k for k in co.co_consts if isinstance(k, str)]
    if len(seps) != 1 or [k for k in co.co_consts if not isinstance(k, str)] != [k for k in ref.co_consts if not isinstance(k, str)]:
        return None
    return seps[0]


def _const_bool(node, name, what, default):
    if node is None:
        return default
    if isinstance(node, ast.Constant) and isinstance(node.value, bool):
        return node.value
    raise RuntimeError("%s.match: %s is not a constant" % (name, what))


def _is_none(node):
    return isinstance(node, ast.Constant) and node.value is None


def read_off():
    """-> dict(seq=[(std, cls, sep)], sep=[(std, cls, has_l, has_r, req_l, req_r)],
               call=[(std, cls, kw|None, upper, req_rhs)], kv=[(std, cls, kw|None, req_lhs, upper)], skipped=[...])"""
    out = dict(seq=[], sep=[], call=[], kv=[], skipped=[])
    for std, name, c, mod in _classes():
        fn = c.__dict__["match"]
        fn = getattr(fn, "__func__", fn)
        try:
            src = textwrap.dedent(inspect.getsource(fn))
            tree = ast.parse(src)
        except (OSError, TypeError, SyntaxError):
            if name.endswith("_List"):
                sep = _from_code(name, fn)
                if sep is None:
                    out["skipped"].append((std, name, "generated list class whose match() is not the template's code"))
                elif len(sep) != 1 or sep not in OK_SEPARATORS:
                    raise RuntimeError("%s.match: separator %r is outside the modelled set" % (name, sep))
                else:
                    out["seq"].append((std, name, sep))
            continue
        f = tree.body[0]
        if not isinstance(f, ast.FunctionDef):
            continue
        body = [s for s in f.body if not (isinstance(s, ast.Expr) and isinstance(getattr(s, "value", None), ast.Constant)
                                          and isinstance(s.value.value, str))]
        bases = ("SequenceBase.match", "SeparatorBase.match", "CallBase.match", "CALLBase.match", "KeywordValueBase.match")
        if len(body) != 1 or not isinstance(body[0], ast.Return) or not isinstance(body[0].value, ast.Call):
            if any(b in src for b in bases):
                out["skipped"].append((std, name, "match() does more than delegate"))
            continue
        call = body[0].value
        fnm = ast.unparse(call.func)
        if fnm not in bases:
            continue
        args = call.args
        kws = {k.arg: k.value for k in call.keywords}
        params = [a.arg for a in f.args.args if a.arg not in ("cls", "self")]
        par = params[0]
        if fnm == "SequenceBase.match":
            if len(args) != 3 or kws or ast.unparse(args[2]) != par or not (isinstance(args[0], ast.Constant) and isinstance(args[0].value, str)) \
                    or not isinstance(args[1], ast.Name):
                out["skipped"].append((std, name, "SequenceBase.match with arguments that are not understood"))
                continue
            sep = args[0].value
            if len(sep) != 1 or sep not in OK_SEPARATORS:
                raise RuntimeError("%s.match: separator %r is outside the modelled set" % (name, sep))
            out["seq"].append((std, name, sep))
        elif fnm == "SeparatorBase.match":
            if len(args) != 3 or set(kws) - {"require_lhs", "require_rhs"} or ast.unparse(args[2]) != par:
                out["skipped"].append((std, name, "SeparatorBase.match with arguments that are not understood"))
                continue
            for a in args[:2]:
                if not (_is_none(a) or isinstance(a, ast.Name)):
                    raise RuntimeError("%s.match: class argument %s not understood" % (name, ast.unparse(a)))
            out["sep"].append((std, name, not _is_none(args[0]), not _is_none(args[1]),
                               _const_bool(kws.get("require_lhs"), name, "require_lhs", False),
                               _const_bool(kws.get("require_rhs"), name, "require_rhs", False)))
        elif fnm in ("CallBase.match", "CALLBase.match"):
            allowed = {"require_rhs"} | ({"upper_lhs"} if fnm == "CallBase.match" else set())
            if len(args) != 3 or set(kws) - allowed or ast.unparse(args[2]) != par or not isinstance(args[1], ast.Name):
                out["skipped"].append((std, name, fnm + " with arguments that are not understood"))
                continue
            if isinstance(args[0], ast.Constant) and isinstance(args[0].value, str):
                kw = args[0].value
            elif isinstance(args[0], ast.Name):
                kw = None
            else:
                out["skipped"].append((std, name, "lhs argument is %s" % ast.unparse(args[0])))
                continue
            upper = True if fnm == "CALLBase.match" else _const_bool(kws.get("upper_lhs"), name, "upper_lhs", False)
            out["call"].append((std, name, kw, upper, _const_bool(kws.get("require_rhs"), name, "require_rhs", False)))
        else:
            if len(args) != 3 or set(kws) - {"require_lhs", "upper_lhs"} or ast.unparse(args[2]) != par or not isinstance(args[1], ast.Name):
                out["skipped"].append((std, name, "KeywordValueBase.match with arguments that are not understood"))
                continue
            if isinstance(args[0], ast.Constant) and isinstance(args[0].value, str):
                kw = args[0].value
            elif isinstance(args[0], ast.Name):
                kw = None
            else:
                out["skipped"].append((std, name, "lhs argument is %s" % ast.unparse(args[0])))
                continue
            out["kv"].append((std, name, kw, _const_bool(kws.get("require_lhs"), name, "require_lhs", True),
                              _const_bool(kws.get("upper_lhs"), name, "upper_lhs", False)))
    return out


def _txt(s):
    return "[" + "; ".join('"%s"' % ch if ch != '"' else '""""' for ch in s) + "]%char"


def generate(gen_dir):
    r = read_off()
    if len(r["seq"]) < 40 or len(r["sep"]) < 3 or len(r["call"]) < 10 or len(r["kv"]) < 3:
        raise RuntimeError("too few delegating classes found (%d sequence, %d separator, %d call, %d keyword-value): "
                           "the source layout changed" % (len(r["seq"]), len(r["sep"]), len(r["call"]), len(r["kv"])))
    b = lambda x: "true" if x else "false"   # noqa
    okw = lambda k: "None" if k is None else "(Some %s)" % _txt(k)   # noqa
    with open(os.path.join(gen_dir, "SrmGen.v"), "w") as f:
        f.write("(* generated by tools/translate_srm.py from the live match() methods -- do not edit *)\n")
        f.write("From Coq Require Import List Ascii String.\nImport ListNotations.\nLocal Open Scope string_scope.\n")
        f.write("(* class, separator *)\nDefinition seq_classes : list (string * ascii) := [\n")
        f.write(";\n".join('  ("%s:%s", "%s"%%char)' % (std, n, s) for std, n, s in r["seq"]))
        f.write("].\n(* class, lhs class given, rhs class given, require_lhs, require_rhs *)\n")
        f.write("Definition sep_classes : list (string * bool * bool * bool * bool) := [\n")
        f.write(";\n".join('  ("%s:%s", %s, %s, %s, %s)' % (std, n, b(a), b(c), b(d), b(e)) for std, n, a, c, d, e in r["sep"]))
        f.write("].\n(* class, keyword (None: a class), upper_lhs, require_rhs *)\n")
        f.write("Definition call_classes : list (string * option (list ascii) * bool * bool) := [\n")
        f.write(";\n".join('  ("%s:%s", %s, %s, %s)' % (std, n, okw(k), b(u), b(q)) for std, n, k, u, q in r["call"]))
        f.write("].\n(* class, keyword (None: a class), require_lhs, upper_lhs *)\n")
        f.write("Definition kv_classes : list (string * option (list ascii) * bool * bool) := [\n")
        f.write(";\n".join('  ("%s:%s", %s, %s, %s)' % (std, n, okw(k), b(q), b(u)) for std, n, k, q, u in r["kv"]))
        f.write("].\n")
        f.write("(* not modelled: %s *)\n" % ", ".join("%s:%s" % (s, n) for s, n, _ in r["skipped"]))


if __name__ == "__main__":
    import sys
    sys.path.insert(0, "/repo/src")
    generate(sys.argv[1] if len(sys.argv) > 1 else os.path.join(os.path.dirname(os.path.abspath(__file__)), "..", "coq", "Gen"))
    r = read_off()
    print({k: len(v) for k, v in r.items()})
    print(r["skipped"])
    print(r["sep"], r["call"], r["kv"])
