"""What MANIFEST.json claims, per property (edited as the framework grows)."""
FIX_COMMITS = ["4727107", "486f7ce", "d05ddbd", "f423e4b", "7fe0d0d", "5df9647", "d27b645", "987e38c", "2cef112", "982202e", "f86aa9e", "c129ca9", "e8515c9", "341aea1", "515d88c", "c40fb6f", "c2e88a4", "927a4ab", "1bb4912", "5aed925", "df54439", "9497b7a", "ffcfa14", "1d17e10", "d4d57a9", "ec020a0", "042ed29", "8db46b2", "0135040", "d93fe7c", "5122c96", "e0ca076", "b952f58", "b269106", "a8fb4fc", "26bb470", "6c0aa1f", "30e9cb8"]

ENGINE_NOTE = ("Trusted: Coq 8.16.1 kernel (vm_compute for table obligations; no axioms: every theorem is "
               "'Closed under the global context'); tools/translate.py (reflective dump of the live classes, "
               "probe-selected variants of the custom matchers); the correspondence harness (extracted OCaml "
               "engine + real statement classes as leaf oracle vs the real parser: outcome, full tree shape, exact "
               "reader-level Base.__new__ count, error line, scope depth, table structure). Modelled, not verified: "
               "the statement-level match bodies (leaf oracle L, a section variable: theorems hold for every L).")

READER_NOTE = ("Trusted: Coq 8.16.1 kernel (no axioms; vm_compute for the computed examples); the hand-written character-level "
               "reader model (coq/Model/Reader.v, Text.v, SplitLine.v: get_single_line, handle_inline_comment, the free-form "
               "continuation loop, the fixed-form branch, OpenMP sentinels, cpp lines, ';' splitting, get/put) tied to "
               "readfortran.py by the correspondence check: the extracted OCaml model and the real reader must deliver the "
               "same items (kind, text, label, construct name, span, in-line flag) on every layout tried (thousands of "
               "generated layouts + structured fuzz per run). Not modelled: pyf/f77/strict modes, f2py directives, tab "
               "expansion; ';' splitting is modelled on the original text (equal up to blanks next to parentheses).")

CLAIMED = {
    "C09": dict(
        design_ref="DESIGN.md 4 (C09), 3.4",
        text="Theorem (for the tables regenerated from /repo, every leaf oracle, every input and every outcome "
             "except process termination): the scope stack after a parse equals the one before it "
             "(K3 by induction over the engine model, also for every single rule invocation). The model is tied to "
             "the code by regenerated tables + probe-selected variants + exact correspondence; histories up to "
             "length 3/4 over creates, valid and invalid parses are compared with fresh processes to search for a "
             "failing input.",
        note=ENGINE_NOTE + " The 'symbol tables unchanged' half is proved only for the scope stack; table "
             "contents on failure are checked end-to-end (two known findings). Memo purity of string_replace_map "
             "and Line.parse_cache are exercised, not proved.",
        technique="Rocq proof (induction over engine model, K3 scope contract) + regenerated tables + model/impl correspondence + history search"),
}
CLAIMED["C08"] = dict(
    design_ref="DESIGN.md 4 (C08), 3.4",
    text="Theorems (tables regenerated from /repo, every leaf oracle, every input): a returned tree is well nested "
         "w.r.t. the table (K4: every block node ends with a statement of its end class whose label/name agree with "
         "the opener as the rule's flags demand, recursively), its leaves are exactly the source items in order when "
         "the Main_Program0 fall-back was not taken (K2), and every failing rule invocation restores the reader (K1). "
         "Tie: regenerated tables + exact model/implementation correspondence on structural mutants. Failing-input "
         "search: every single structural edit and parenthesis edit of generated programs must raise (with comments "
         "dropped and kept).",
    note=ENGINE_NOTE + " Which texts count as opener/END and parenthesis balance inside a statement are "
         "statement-level (leaf oracle); the latter is covered end-to-end and by the SplitLine laws (C02).",
    technique="Rocq proof (induction over engine model: K1 restore, K2 yield, K4 well-nestedness) + regenerated tables + correspondence + exhaustive single-edit search")
CLAIMED["C02"] = dict(
    design_ref="DESIGN.md 4 (C02), 3.1, 3.4",
    text="Theorems: (a) for the regenerated tables and every leaf oracle, when the Main_Program0 fall-back is not "
         "taken the leaves of the returned tree are exactly the reader's items in order (no statement or unit "
         "dropped, duplicated, reordered); the fall-back path is refuted by a computed witness (finding F5); "
         "(b) splitquote and splitparen are lossless for every line and quote state, lower=True only lower-cases "
         "text outside literals; (c) the key bookkeeping of string_replace_map (identical groups share a key "
         "through a reverse map) restores every line exactly, for the look-up variant probed from the live code; "
         "the other variant (the code before fix c40fb6f) is refuted. Tie: regenerated tables, engine "
         "correspondence, SplitLine model vs the Python on 1.5k/40k generated lines, key sequences of the model vs "
         "string_replace_map on generated lines with repeated and doubly parenthesised groups. Failing-input search: independent lexer/normaliser comparing "
         "tokens(str(parse(layout(P)))) with tokens(P) over programs x layouts x comment settings.",
    note=ENGINE_NOTE + " Partial: statement text -> str(statement) for non-expression statements is not "
         "modelled (end-to-end token comparison only); string_replace_map is modelled at segment level (keys "
         "are numbers: the textual form of the keys, hence the prefix hazard F2PY_EXPR_TUPLE_1 / _10, is not). Exponent-letter case of real literals is treated as keyword case.",
    technique="Rocq proof (engine K2 yield; splitquote/splitparen losslessness by induction) + regenerated tables + correspondence + independent-lexer token search")
CLAIMED["C11"] = dict(
    design_ref="DESIGN.md 4 (C11), 3.4",
    text="Theorems (regenerated tables, every leaf oracle, every input): when a tree is returned without the "
         "Main_Program0 fall-back, the items of its Comment/Directive nodes in source order are exactly the "
         "comment items the reader delivered, in order (each once; K2 + the leaf-kind part of K4); Directive nodes "
         "only hold directive-form, not in-line comments; a failed alternative gives back the comments it consumed "
         "(K1). Tie: regenerated tables + exact engine correspondence with comments kept / directives processed. "
         "Search: comment placements over generated programs (comments(tree)==K, position in the regenerated text, "
         "ignore == no comments, process_directives only retypes).",
    note=ENGINE_NOTE + " Partial: the reader half (comments met inside a continued statement are queued and "
         "delivered after it) and the effect of process_directives on the rest of the tree are checked end-to-end, "
         "not proved.",
    technique="Rocq proof (engine K1/K2 + leaf-kind invariant by induction) + regenerated tables + correspondence + comment-placement search")
CLAIMED["C14"] = dict(
    design_ref="DESIGN.md 4 (C14), 3.4",
    text="Theorems (regenerated tables, every leaf oracle, every input): every preprocessor item the reader "
         "delivers is a leaf of the returned tree exactly once and at its position among the other items (K2), and "
         "back-tracking can neither lose nor duplicate one (K1). Tie: regenerated tables + exact engine "
         "correspondence on programs with directives. Search: 18 directive forms inserted at statement boundaries "
         "of generated programs: directive nodes == inserted, tree minus directive nodes == tree(P), text equal.",
    note=ENGINE_NOTE + " Partial: transparency of directives for the OTHER statements (strip(tree(P+D)) = tree(P)) "
         "is not a theorem of the model (it fails for strict-order blocks: one recorded finding) and payload "
         "preservation is statement-level; both are checked end-to-end.",
    technique="Rocq proof (engine K1/K2 by induction) + regenerated tables + correspondence + directive-insertion search")
CLAIMED["C07"] = dict(
    design_ref="DESIGN.md 4 (C07), 3.4 (K5)",
    text="Theorem K5 (EVERY table, every leaf oracle that rejects the offending item, any prefix and suffix): "
         "whatever the outcome, the reader never advances beyond the last line of the offending statement, so a "
         "FortranSyntaxError is never reported after it (proved by induction over the engine model: every pop is "
         "either kept in a leaf or pushed straight back). Tie: regenerated tables + exact engine correspondence in "
         "which the reported line is a compared observable. Search: every statement position of generated programs "
         "replaced by garbage (5 texts, continued/with braces, with comments, form feed): line and quoted text.",
    note=ENGINE_NOTE + " Partial (named _partial): only the upper bound on the reported line is proved; that the "
         "offending statement is reached at all, the message text and the reader's physical-line bookkeeping are "
         "checked by exhaustive position enumeration. Fixed form excluded (documented look-ahead).",
    technique="Rocq proof (K5 barrier invariant by induction over engine model) + regenerated tables + correspondence + exhaustive statement-position enumeration")
CLAIMED["C06"] = dict(
    design_ref="DESIGN.md 4 (C06), 3.4 (K8)",
    text="Theorem K8 (EVERY table): if the statement-level matchers raise only NoMatchError, FortranSyntaxError and "
         "InternalSyntaxError, the parse ends in a tree, nothing, a FortranSyntaxError, or one of three named "
         "mechanisms (reader.error() process exit; SymbolTableError; out-of-fuel of the model); the engine adds no "
         "other exception kinds (proved by induction over the engine model); the process-exit path is refuted by a "
         "computed witness (finding F2). Tie: regenerated tables + engine correspondence on mutated programs "
         "(outcome type compared). Search: 1.5k/150k mutated programs and random texts with a 20 s alarm, files "
         "with invalid UTF-8.",
    note=ENGINE_NOTE + " Partial (named _partial): which exceptions the ~400 statement-level match bodies raise, "
         "termination (the model uses explicit fuel) and wall-clock time are explored, not proved.",
    technique="Rocq proof (exception-flow invariant by induction over engine model) + regenerated tables + correspondence + mutation/random-text fuzzing with timeouts")
CLAIMED["C12"] = dict(
    design_ref="DESIGN.md 4 (C12), 3.2",
    text="Theorems (every reader state, every item the reader can hand out unchanged): reading after push-back "
         "returns the same item and restores the state; reading k items ahead and restoring them leaves a reader "
         "from which exactly those items are read again (induction over k). Computed instances of the model on "
         "continued/commented/';'-joined/fixed-form sources. Tie: model == real reader on generated layouts and "
         "structured fuzz. Search: items(reader) == expected (text mod blanks, label, name, span) for known "
         "layouts in free and fixed form; read-ahead/restore walks incl. two levels of INCLUDE.",
    note=READER_NOTE + " Partial: 'each statement exactly once with exact span for every layout' is not a theorem; "
         "it is the correspondence plus the end-to-end comparison.",
    technique="Rocq proof (push-back laws of the reader model by induction) + character-level model/reader correspondence + layout and push-back-walk search")
CLAIMED["C04"] = dict(
    design_ref="DESIGN.md 4 (C04), 3.2",
    text="Theorems about the reader model: the free-form continuation loop joins n pieces cut at arbitrary character "
         "positions (pieces free of quotes/'!'/'&', leading '&') to exactly their concatenation, with exact span and "
         "consumption, for every n and every reader state (induction over the pieces); comment and blank lines "
         "inside a continuation are transparent for every quote state. Tie: model == real reader on exhaustive "
         "single-break layouts of six statements and on random layouts. Search: the same exhaustive enumeration "
         "against the one-line form, and tree(L(P)) == tree(canonical(P)) for generated programs x layouts.",
    note=READER_NOTE + " Partial (named _partial): breaks inside literals, ';' joins, label/name extraction and case "
         "are covered by correspondence + end-to-end only; tree equality also needs blank-insensitive statement "
         "matchers (three recorded exceptions).",
    technique="Rocq proof (continuation-join theorem by induction over pieces) + character-level model/reader correspondence + exhaustive small-statement layout enumeration + program-level layout search")
CLAIMED["C05"] = dict(
    design_ref="DESIGN.md 4 (C05), 3.2",
    text="Theorems: exact characterisation of the fixed/free detector (model of get_source_info_str) by line shape: "
         "every line looks fixed and none ends in '&' => fixed; some line starts in columns 1-5 with an admissible "
         "character => free; and these are the only reasons for free. The unconditional wording is refuted by a "
         "computed witness (F11), as is 'literals keep every character' (F10). Computed instances of the reader "
         "model show fixed and free renderings of a statement giving the same item. Tie: detector model vs "
         "get_source_info_str on generated and random sources; reader model vs real reader on fixed-form layouts. "
         "Search: generated programs in fixed-form renderings: detected fixed, reader stays in fix mode, same tree.",
    note=READER_NOTE + " Partial: equivalence of fixed-form and free-form reading for every statement is not a theorem "
         "(correspondence + end-to-end). Three recorded findings (F10, F11, indented '!' comment).",
    technique="Rocq proof (detector characterisation, both directions) + detector/reader model correspondence + fixed-form rendering search")
CLAIMED["C15"] = dict(
    design_ref="DESIGN.md 4 (C15), 3.2",
    text="Theorems about the reader model: in fixed form, pulling physical lines with handling enabled equals pulling "
         "them, with handling disabled, from the source in which every sentinel (!$ c$ C$ *$ with both column "
         "patterns) is replaced by blanks (induction over the source); sentinel lines are comment lines when disabled; "
         "the free-form initial sentinel becomes blanks of the same width, '!$omp' is left alone; computed instances "
         "for continued statements in both forms. Tie: reader model == real reader on sentinelised layouts with "
         "include_omp_conditional_lines. Search: subsets of simple statements hidden behind sentinels: "
         "tree(enabled)==tree(P), tree(disabled)==tree(P minus S), '!$omp' stays a comment.",
    note=READER_NOTE + " Partial: the free-form continuation sentinel (state had_omp_sentinels) and whole-statement "
         "equality are covered by correspondence + end-to-end, not by a theorem.",
    technique="Rocq proof (sentinel replacement = blanked source, induction over lines) + reader model correspondence + sentinelised-subset search")
CLAIMED["C13"] = dict(
    design_ref="DESIGN.md 4 (C13), 3.2",
    text="Theorems about the item-level INCLUDE model (nest of readers as a stack, file system a function): push-back "
         "goes to the innermost reader and reading again returns the item and the same nest, for every nesting depth; "
         "the first directory that has the file wins; an unresolvable INCLUDE line is delivered at its position; and "
         "the general splice theorem: for EVERY nest of include files (any depth and number, no file including "
         "itself) reading through the nest of readers == textual inlining, item by item, from any reader state. Tie: the extracted model's "
         "stream vs the items the real reader delivers on every generated split (real temp files). Search: programs "
         "split into main + up to 3 nested include files, include-path order with decoys, string and file readers, "
         "absent files: same tree / Include_Stmt nodes kept and re-emitted.",
    note="Trusted: Coq kernel; the item-level model coq/Model/Include.v (items opaque) tied to readfortran.py by the "
         "stream comparison. Items are opaque: that the statements of an included file are read like those of the parent "
         "is the reader model's business (C12). Hypothesis: included files are detected as the parent's source form "
         "(one recorded finding when not).",
    technique="Rocq proof (general splice theorem: reading == textual inlining, by induction with a weight measure; push-back/first-directory laws) + model-vs-reader stream correspondence + include-split search")
CLAIMED["C17"] = dict(
    design_ref="DESIGN.md 4 (C17), 3.5",
    text="Theorems: the Gallina model of ParserFactory.create/_setup, run on the class declarations read off the live "
         "Fortran2003 module and Fortran2008 package, computes exactly the registry the real factory builds, for both "
         "standards (closed by computation on every run); exactly one 2003 rule (Stop_Code) has a 2008 alternative list "
         "that is not a superset by rule name, hence for every other rule no override drops an alternative (lifted "
         "with a proved soundness lemma); the F2008-only rules are absent from the 2003 registry. Search: generated "
         "F2003 programs through both parsers (same text modulo case outside literals), programs with F2008-only "
         "constructs (12 single-construct programs + generated): 2003 rejects, 2008 accepts.",
    note="Trusted: Coq kernel (vm_compute over the dumped declarations, no axioms); tools/translate_registry.py "
         "(reflective dump of inspect.getmembers and Base.subclasses). Partial: that a 2008 override's match() accepts "
         "at least what its 2003 namesake accepts is statement-level and only checked end-to-end.",
    technique="Rocq proof by computation on regenerated registry tables (model of _setup = real registry; no alternative dropped) + both-parser search")
CLAIMED["C10"] = dict(
    design_ref="DESIGN.md 4 (C10), 3.4",
    text="Theorems: walk() and _set_parent() agree on what a node's children are for every nesting of lists and "
         "tuples (induction over the container structure); the live functions are the list-descending variants "
         "(probed on every run; the skipping variant is refuted); statement nodes are the source items, each once, in "
         "source order (engine K2, regenerated tables, every leaf oracle). Tie: probes of the live helpers + engine "
         "correspondence. Search: every node of the trees of generated programs and of their re-parse: uniqueness, "
         "parent links (nested containers included), get_root, walk order, print order.",
    note=ENGINE_NOTE + " Partial: the mutable up-links (Base.parent set at construction, re-set when a cached "
         "statement object is adopted by the surviving parent) are not in the engine model; they are checked on every "
         "node of every explored tree.",
    technique="Rocq proof (walk/_set_parent agreement by induction over containers; engine K2) + probe-selected variants + per-node invariant search")
CLAIMED["C18"] = dict(
    design_ref="DESIGN.md 4 (C18), 3.5",
    text="Theorems: the default copy protocol (re-create by __newobj__(cls, *__getnewargs__()), copy the state, memo "
         "redirects parent links) applied to ANY tree yields a tree of the same structure, with consistent parent "
         "links and fresh node identities (induction over the tree); every node class of the live code satisfies the "
         "protocol's precondition (per protocol group a real instance is rebuilt by cls.__new__(cls, *getnewargs), no "
         "class defines a hook replacing the default protocol), re-established from probes on every run. Search: "
         "deepcopy and pickle of generated trees x standards x comment modes x reader kinds: text, structure, C10 "
         "invariants on the copy, disjoint identities, mutation isolation.",
    note="Trusted: Coq kernel; tools/translate_copy.py (probes). Partial: Python's copy/pickle internals are modelled "
         "only as far as the two hooks and the memo; one recorded finding (trees from FortranFileReader).",
    technique="Rocq proof (copy protocol on trees by induction) + probed per-class protocol table + deepcopy/pickle search")
CLAIMED["C20"] = dict(
    design_ref="DESIGN.md 4 (C20)",
    text="Theorems (every table, every leaf oracle, every item stream): the per-line parse cache keeps the "
         "statement-level work linear -- cache keys stay pairwise distinct through every rule invocation, belong to "
         "items of the source, and the number of statement-level matches started equals the number of keys, hence "
         "is at most items x classes (generic invariant pass over the engine model + pigeonhole). Tie: the model's "
         "constructor-call count AND statement-level match count are compared for equality with the implementation's "
         "on the catalogue programs (exact, reader level). Search: catalogue of 50 size-indexed families x standards: "
         "attempts(f(2n)) <= 4 * attempts(f(n)) counting every Base.__new__ call, with a call budget.",
    note=ENGINE_NOTE + " Partial: no theorem bounds the number of rule-constructor calls (it is exponential for the "
         "recorded families: nested action-terminated labelled DO, nested name(args) references); expression-level "
         "calls are outside the engine model and are measured only.",
    technique="Rocq proof (parse-cache invariant: statement-level matches are linear) + exact cost correspondence + growth measurement over a family catalogue")
CLAIMED["C16"] = dict(
    design_ref="DESIGN.md 4 (C16)",
    text="Theorems: (a) the enter/exit operations induced by ANY scope forest (any depth and width), run below any "
         "well-formed current scope, append exactly that forest as tables, in source order, and return to the same "
         "scope; at top level one table per distinct unit name; (b) an attempt that is entered, filled, left and "
         "removed leaves the tables unchanged (fresh name); (c) engine, regenerated tables, every leaf oracle: every "
         "rule invocation returns to the scope it started in, and a (line, class) pair is matched at most once, so "
         "declaration side effects are not repeated by back-tracking. Tie: table structure after the parse is compared "
         "model vs implementation on generated nested programs. Search: generated programs with random nesting of "
         "modules / subprograms / BLOCKs, shadowing declarations (generic and specific intrinsic names) and ONLY-imports "
         "at chosen levels: table tree == scope tree, symbols and modules per table, and every reference is an "
         "intrinsic reference iff not shadowed (ground truth by construction).",
    note=ENGINE_NOTE + " Partial: that the engine emits enter/exit exactly in bracket order of the scoping statements "
         "of the result tree is not a theorem (correspondence); the contents of a table and the lookup in "
         "Intrinsic_Function_Reference.match are statement-level code, checked end to end only.",
    technique="Rocq proof (scope-forest theorem for the table bookkeeping by induction over forests; engine K3; parse-cache once-ness) + table-structure correspondence + ground-truth search over generated scope nests")
CLAIMED["C19"] = dict(
    design_ref="DESIGN.md 4 (C19)",
    text="Theorem (every statement-level oracle, every nesting, shared DO labels included): the fparser1 block matcher "
         "(BeginStatement.fill / process_subitem, Do.process_subitem) keeps every statement exactly once and in order -- "
         "flatten(content) ++ unread = input -- so regenerated source lists the input's statements one to one; the live "
         "variant of Do.process_subitem is probed on every run and the duplicating variant (the behaviour before the "
         "repair) is refuted by a computed witness. Tie: extracted model vs fparser.one on generated programs, with the "
         "real run's statement-level decisions as oracle: complete nesting compared. Search: generated F77/F90-subset "
         "programs x free/fixed x analyze: second round identical, same nesting (also against the nesting known by "
         "construction), statements one to one, every expression text and label carried over.",
    note="Trusted: Coq kernel; tools/translate_one.py (probe); the recording oracle of tools/one_corr.py. Partial: the "
         "~150 per-statement parsers/printers of fparser1 are not modelled (end-to-end only); statements marked 'ignore' "
         "(the type prefix of a FUNCTION statement) are excluded by hypothesis.",
    technique="Rocq proof (block matcher conserves the statement sequence, induction on fuel) + probe-selected variant + model/fparser1 nesting correspondence + round-trip search over a generated F77/F90 subset")
CLAIMED["C01"] = dict(
    design_ref="DESIGN.md 4 (C01)",
    text="Theorems (regenerated tables and any table passing the decidable check, every leaf oracle, every input): "
         "if a parse (not through the Main_Program0 fall-back) returns tree t, its leaves are the items in order and "
         "parsing those statements again returns exactly t and the same reader state -- so, the statements of "
         "str(t) being the leaves in order (checked on every explored tree) and classified as before, the second "
         "tree and the second print equal the first. Tie: regenerated tables; engine correspondence on REGENERATED "
         "texts. Search: generated programs x layouts x standards x comment modes: parse(str(T)) ~ T by canonical "
         "repr, str(parse(str(T))) == str(T).",
    note=ENGINE_NOTE + " Partial (named _partial): the ~400 statement-level match()/tostr() pairs are not modelled -- that "
         "a printed statement is classified like the original is checked end to end only; the first round's items "
         "carry the source's line numbers (the theorem is exact from round two on); the print order of "
         "BlockBase.tofortran and its overrides is a correspondence check, not a theorem about the Python.",
    technique="Rocq proof (engine: re-parse of a tree's own statements is the identity, from K2) + regenerated tables + print-order and engine correspondence + round-trip search")
CLAIMED["C03"] = dict(
    design_ref="DESIGN.md 4 (C03)",
    text="Theorem (unbounded depth and size): for every expression tree of the standard's grammar R702-R722 over all "
         "intrinsic and defined operators, rendered with the minimal parentheses, the matcher model -- "
         "BinaryOpBase/UnaryOpBase.match driven by the rule chain RECORDED from the live classes on every run -- returns "
         "that tree (precedence, left/right associativity, retained parentheses), under the side condition that "
         "records finding F1; without it the statement is refuted by a computed witness. Also: every accepted text "
         "ends with an operand, for every rule chain. Tie: recorded chain == modelled chain (obligation); extracted "
         "model vs Fortran2003.Expr on every explored expression, malformed renderings included. Search: "
         "bounded-exhaustive operator trees (<= 2 quick, <= 3 thorough), random to depth 6, 10-14-group chains, and "
         "the same through full programs.",
    note="Trusted: Coq kernel (vm_compute for the finite sweep in C03_refuted); tools/translate_expr.py (recorder around "
         "BinaryOpBase.match/UnaryOpBase.match); the expression correspondence harness. Partial: the model is token-level; "
         "the lexical layer (operator regular expressions, exponent literals, string_replace_map) is covered by "
         "correspondence and search only.",
    technique="Rocq proof (parse(render e) = e by induction over expression trees, chain recorded from the live classes) + model/Expr correspondence + bounded-exhaustive and random expression search")
NOT_CLAIMED = {}
