"""Correspondence between the Gallina engine model (extracted to OCaml, ocaml/_build/driver) and
the real fparser2 engine: same reader items, leaf oracle answered by the real statement classes,
compared on outcome kind, complete tree shape, exact reader-level Base.__new__ count, reported
error line, scope depth and symbol-table structure after the parse."""
import os
import sys
import subprocess
import tempfile

import fp
import translate

VERIF = os.path.dirname(os.path.dirname(os.path.abspath(__file__)))
DRIVER = os.path.join(VERIF, "ocaml", "_build", "driver")

_tables = {}


# deep expression nests: the interpreter's default recursion limit is not what is being compared
sys.setrecursionlimit(max(sys.getrecursionlimit(), 12000))


def tables(std):
    if std not in _tables:
        _tables[std] = translate.build(std)
        fp._current_std[0] = std  # translate.build ran ParserFactory().create(std)
    return _tables[std]


class Interner:
    def __init__(self):
        self.m = {"fparser2:main_program": 0}

    def __call__(self, s):
        s = s.lower()
        if s.startswith("block:"):
            s = "block:#"      # synthetic names of unnamed BLOCKs come from a process-wide counter
        if s not in self.m:
            self.m[s] = len(self.m)
        return self.m[s]


class Model:
    """One driver process per standard."""

    def __init__(self, std):
        self.std = std
        self.T = tables(std)
        self.tf = tempfile.NamedTemporaryFile("w", suffix=".tbl", delete=False, dir=os.environ.get("VERIF_TMP", None))
        self.tf.write("\n".join(translate.table_protocol(self.T)) + "\n")
        self.tf.close()
        self.p = subprocess.Popen([DRIVER, self.tf.name], stdin=subprocess.PIPE, stdout=subprocess.PIPE,
                                  text=True, bufsize=1)
        assert self.p.stdout.readline().strip() == "READY"

    def close(self):
        try:
            self.p.stdin.write("QUIT\n")
            self.p.stdin.flush()
            self.p.wait(timeout=5)
        except Exception:
            self.p.kill()
        os.unlink(self.tf.name)

    def run(self, src, ignore_comments=True, process_directives=False, fuel=400, **kw):
        """Run the model on the items of src; the leaf oracle is answered by the real classes."""
        T = self.T
        fp.parser(self.std)
        fp.SYMBOL_TABLES.clear()
        rd = fp.reader(src, ignore_comments=ignore_comments, process_directives=process_directives, **kw)
        items = list(rd)
        intern = Interner()
        lines = ["CASE %d %d %d" % (1 if process_directives else 0, fuel, len(items))]
        self.maxlast = max([it.span[1] for it in items] or [0])
        dirs = F3_directive_formats()
        for k, it in enumerate(items):
            if isinstance(it, fp.readfortran.Comment):
                kd = "C"
                low = it.comment.lower()
                isdir = (not it.inline) and any(p.match(low) for p in dirs)
            elif isinstance(it, fp.readfortran.CppDirective):
                kd, isdir = "P", False
            else:
                kd, isdir = "L", False
            first, last = it.span
            blank = all((l.strip() == "" or rd.is_comment_line(l)) for l in rd.source_lines[first - 1:last])
            lines.append("I %d %s %d %d %d" % (k, kd, isdir, blank, last))
        self.p.stdin.write("\n".join(lines) + "\n")
        self.p.stdin.flush()
        cache = {}
        nq = 0
        while True:
            ln = self.p.stdout.readline()
            if not ln:
                raise RuntimeError("driver died")
            if ln.startswith("Q "):
                nq += 1
                parts = ln.split()
                k, c = int(parts[1]), int(parts[2])
                pcls = [T.classes[int(x)] for x in parts[3:]]
                key = (k, c)
                if key not in cache:
                    cache[key] = self.oracle(items[k], T.classes[c], pcls, intern)
                self.p.stdin.write(cache[key] + "\n")
                self.p.stdin.flush()
            elif ln.startswith("RES "):
                head, sh, tabs = [x.strip() for x in ln[4:].split("|")]
                tag, line, cost, lcost, depth, left, maxread = head.split()
                fp.SYMBOL_TABLES.clear()
                return dict(kind=tag, line=int(line), cost=int(cost), lcost=int(lcost), depth=int(depth),
                            left=int(left), maxread=int(maxread), shape=sh, tables=tabs, queries=nq,
                            nitems=len(items), intern=intern, maxlast=self.maxlast)
            else:
                raise RuntimeError("driver said: " + ln)

    def oracle(self, item, cls, pcls, intern):
        utils = fp.utils
        try:
            obj = cls(item.line, parent_cls=list(pcls))
        except utils.NoMatchError:
            return "N"
        except utils.FortranSyntaxError:
            return "R Syntax"
        except utils.InternalSyntaxError:
            return "R InternalSyntax"
        except SystemExit:
            return "R Exit"
        except Exception:
            return "R Other"
        if obj is None:
            return "N"
        obj.item = item

        def o(x):
            return -1 if x is None else x
        sl = el = sn = en = un = None
        scope = 0
        try:
            if hasattr(obj, "get_start_label"):
                sl = obj.get_start_label()
            if hasattr(obj, "get_end_label"):
                el = item.label
            if hasattr(obj, "get_start_name"):
                v = obj.get_start_name()
                sn = None if not v else intern(str(v))
            if hasattr(obj, "get_end_name"):
                v = obj.get_end_name()
                en = None if not v else intern(str(v))
            if isinstance(obj, utils.ScopingRegionMixin):
                scope = intern(str(obj.get_scope_name()))
            if hasattr(obj, "get_name"):
                v = obj.get_name()
                un = None if v is None else intern(str(v))
        except Exception:
            return "R Other"
        return "Y %d %d %d %d %d %d" % (o(sl if sl is None else int(sl)), o(el), o(sn), o(en), scope, o(un))


_dirs = []


def F3_directive_formats():
    import re
    if not _dirs:
        _dirs.extend(re.compile(p) for p in fp.F3.Directive._directive_formats)
    return _dirs


def real_shape(T, tree, seen):
    """Shape of the real tree in the model's encoding."""
    out = []

    def rec(n):
        idx = T.index.get(type(n))
        if idx is None:
            out.append(-1)
            return
        if isinstance(n, fp.utils.BlockBase):
            out.append(idx)
            out.append(1000000)
            for c in n.content:
                rec(c)
            out.append(1000001)
        else:
            out.append(idx)
            out.append(seen.get(id(n.item), -2))
    rec(tree)
    return " ".join(str(x) for x in out)


def run_real(std, src, ignore_comments=True, process_directives=False, intern=None, **kw):
    T = tables(std)
    fp.parser(std)
    fp.SYMBOL_TABLES.clear()
    rd = fp.reader(src, ignore_comments=ignore_comments, process_directives=process_directives, **kw)
    seen, order = fp.track_items(rd)
    with fp.CallCounter() as cc:
        out = fp.parse(src, std=std, rd=rd, clear=False)
    res = dict(kind=out.kind if not out.kind.startswith("escape:") else "escape:" + esc_class(out.kind),
               line=out.line or 0, cost=cc.reader_calls, depth=fp.scope_depth(),
               tables=fp.tables_str(intern), shape="", exc=out.exc, raw_kind=out.kind,
               lcost=sum(len(getattr(it, "parse_cache", ())) for it in order), nitems=len(order))
    if out.kind == "tree":
        res["shape"] = real_shape(T, out.tree, seen)
    fp.SYMBOL_TABLES.clear()
    return res


def esc_class(kind):
    k = kind.split(":", 1)[1]
    return {"SystemExit": "Exit", "NoMatchError": "NoMatch", "InternalSyntaxError": "InternalSyntax"}.get(k, "Other")


def compare(std, src, model=None, **kw):
    """Returns (agree: bool, diffs: list[str], model_result, real_result)."""
    own = model is None
    if own:
        model = Model(std)
    try:
        m = model.run(src, **kw)
    finally:
        if own:
            model.close()
    r = run_real(std, src, intern=m["intern"], **kw)
    diffs = []
    if r["nitems"] > m["nitems"]:
        # the parser obtained more items from the reader than iterating over the reader delivers (a line that
        # starts with ';' ends the iteration but not the parser's own reading): the model was not given the same
        # input, nothing can be compared
        m["skipped"] = True
        return True, [], m, r
    for key in ("kind", "shape", "cost", "lcost", "depth", "tables"):
        if m[key] != r[key]:
            diffs.append("%s: model=%r real=%r" % (key, m[key], r[key]))
    if m["kind"] == "syntax" and r["kind"] == "syntax" and m["line"] != r["line"]:
        # lines after the last item (a cpp continuation cut off by the end of the file, trailing blank or ignored
        # comment lines) are read by the reader but are not items: the model has no line numbers for them
        if not (r["line"] > m["maxlast"] and m["line"] == m["maxlast"]):
            diffs.append("line: model=%r real=%r" % (m["line"], r["line"]))
    return (not diffs), diffs, m, r


if __name__ == "__main__":
    import sys
    src = open(sys.argv[1]).read()
    for std in ("f2003", "f2008"):
        for kw in (dict(ignore_comments=True), dict(ignore_comments=False),
                   dict(ignore_comments=False, process_directives=True)):
            ok, diffs, m, r = compare(std, src, **kw)
            print(std, kw, "AGREE" if ok else "DIFF", m["kind"], m["cost"], r["cost"], "queries", m["queries"])
            for d in diffs:
                print("   ", d[:300])


# ------------------------------------------------------------------ batch interface (Leg C)
_models = {}


def _worker_case(case):
    std, src, kw = case
    if std not in _models:
        _models[std] = Model(std)
    try:
        ok, diffs, m, r = compare(std, src, model=_models[std], **kw)
    except RuntimeError:
        _models.pop(std, None)
        raise
    return dict(ok=ok, diffs=diffs, kind=r["raw_kind"], mkind=m["kind"], cost=r["cost"], queries=m["queries"],
                nitems=m["nitems"], skipped=bool(m.get("skipped")))


def corr_cases(cases, nproc=None):
    """cases: list of (std, src, kwargs).  Returns summary dict with disagreements."""
    import pool
    res = pool.pmap(_worker_case, cases, nproc=nproc, chunksize=2)
    dis = []
    kinds = {}
    harness = []
    distinct = set()
    for case, (st, r) in zip(cases, res):
        if st != "ok":
            harness.append(dict(case=case, error=r))
            continue
        if r.get("skipped"):
            kinds["skipped:item_streams_differ"] = kinds.get("skipped:item_streams_differ", 0) + 1
            continue
        kinds[r["kind"]] = kinds.get(r["kind"], 0) + 1
        distinct.add(hash(case[1]))
        if not r["ok"]:
            dis.append(dict(std=case[0], src=case[1], opts=case[2], diffs=r["diffs"]))
    return dict(cases=len(cases), distinct=len(distinct), outcome_histogram=kinds, disagreements=dis,
                harness_errors=harness[:3], n_harness_errors=len(harness))
