"""Expression trees for C03: generation with the minimal parentheses the standard requires, rendering
(text for the implementation, tokens for the Gallina model), the model driver, and conversion of the
implementation's parse tree to the common fully-bracketed form."""
import itertools
import os
import subprocess

VERIF = os.path.dirname(os.path.dirname(os.path.abspath(__file__)))
DRIVER = os.path.join(VERIF, "ocaml", "_build", "exprdriver")

# operator classes in the numbering of ocaml/exprdriver.ml
OPow, OMul, OAdd, OCat, ORel, ONot, OAnd, OOr, OEqv, ODef = range(10)
SPELL = {
    OPow: [("**", 0)], OMul: [("*", 0), ("/", 0)], OAdd: [("+", 0), ("-", 0)], OCat: [("//", 0)],
    ORel: [("==", 0), ("/=", 0), ("<", 0), ("<=", 0), (">", 0), (">=", 0), (".eq.", 1), (".ne.", 1), (".lt.", 1),
           (".le.", 1), (".gt.", 1), (".ge.", 1)],
    ONot: [(".not.", 1)], OAnd: [(".and.", 1)], OOr: [(".or.", 1)], OEqv: [(".eqv.", 1), (".neqv.", 1)],
    ODef: [(".myop.", 1), (".x.", 1), (".inv.", 1), (".cross.", 1)],
}
BIN = [ODef, OEqv, OOr, OAnd, ORel, OCat, OAdd, OMul, OPow]
UN = [ONot, OAdd, ODef]
# level of the node in the rule chain (coq/Model/Expr.v: lev)
BLEV = {ODef: 0, OEqv: 1, OOr: 2, OAnd: 3, ORel: 5, OCat: 6, OAdd: 7, OMul: 9, OPow: 10}
ULEV = {ONot: 4, OAdd: 8, ODef: 11}
NEED = {ODef: (0, 1), OEqv: (1, 2), OOr: (2, 3), OAnd: (3, 4), ORel: (6, 6), OCat: (6, 7), OAdd: (7, 9), OMul: (9, 10),
        OPow: (11, 10)}
UNEED = {ONot: 5, OAdd: 9, ODef: 12}

ATOMS = ["a", "b2", "x_y", "12", "1.5", "2.", "1.0e-3", "2.5d+10", "3e5", "1.e+2", "arr(i+1)", "m(1, j-2)", "f(x, y+1)",
         "g()", "s%c", "s%arr(2)", "'a+b'", "\"x**2\"", "'it''s'", "h(-1)", "k(a.and.b)", "w(1:n-1)", "1_8",
         "(/ 1, 2 /)", "[1, 2]", "q(1)(2:3)", "s%t(i)%u", "1.0_wp", "c('//')",
         # bracketed groups with operators of every level inside (they must stay hidden from the operator split)
         "[b + c]", "[a, b*c]", "[b ** c, d]", "[x .and. y, z // w]", "[p == q]", "(/ b - c, d / e /)", "[[u + v], [w]]",
         "r(i:i)", "t(k+1:k+1, :)"]
DOTS = [".true.", ".false."]


# ---- trees: ("a", text) | ("d", text) | ("p", e) | ("u", cls, spelling, e) | ("b", cls, spelling, l, r)
def lev(e):
    k = e[0]
    if k in "adp":
        return 12
    if k == "u":
        return ULEV[e[1]]
    return BLEV[e[1]]


def paren(e):
    """insert exactly the parentheses the standard requires (operand category too low for its position)"""
    k = e[0]
    if k in "ad":
        return e
    if k == "p":
        return ("p", paren(e[1]))
    if k == "u":
        x = paren(e[3])
        if lev(x) < UNEED[e[1]]:
            x = ("p", x)
        return ("u", e[1], e[2], x)
    l, r = paren(e[3]), paren(e[4])
    nl, nr = NEED[e[1]]
    if lev(l) < nl:
        l = ("p", l)
    if lev(r) < nr:
        r = ("p", r)
    return ("b", e[1], e[2], l, r)


def flat_tokens(e):
    k = e[0]
    if k in "ad":
        return [e[1]]
    if k == "p":
        return ["("] + flat_tokens(e[1]) + [")"]
    if k == "u":
        return [e[2]] + flat_tokens(e[3])
    return flat_tokens(e[3]) + [e[2]] + flat_tokens(e[4])


def _wordy(ch):
    return ch.isalnum() or ch in "_.'\""


def _isnum(t):
    return t[0].isdigit() or (t[0] == "." and len(t) > 1 and t[1].isdigit())


def _need_blank(prev, t):
    """would writing the two tokens next to each other change the token boundaries?"""
    a, b = prev[-1], t[0]
    if (a.isalnum() or a == "_") and (b.isalnum() or b == "_"):
        return True
    if _isnum(prev) and b == ".":
        return True                      # 1.eq.2 / 1..5
    if a == "." and (_isnum(t) or b == "."):
        return True                      # .eq..5 / .and..not.  (kept apart: not what is being tested)
    if a in "'\"" and b in "'\"":
        return True
    return (a + b) in ("**", "//", "/=", "<=", ">=", "==", "=>", "(/", "/)")


def text(e, style=0, rng=None):
    """style 0: one blank between tokens; 1: no blanks except where two tokens would merge; 2: as 0 with
    upper-case operators; 3: random blanks (0-2) between tokens, blanks inside dotted operators"""
    toks = flat_tokens(e)
    if style == 0:
        return _join_groups(toks, " ")
    out = []
    for i, t in enumerate(toks):
        if style == 2 and t.startswith(".") and t.endswith(".") and len(t) > 2:
            t = t.upper()
        if style == 3 and rng is not None and t.startswith(".") and t.endswith(".") and len(t) > 2 and rng.random() < 0.3:
            t = ". " + t[1:-1] + " ."
        if i:
            prev = out[-1]
            need = _need_blank(prev, t)
            if style == 1:
                sep = " " if need else ""
            elif style == 2:
                sep = " " if not (prev == "(" or t == ")") else ""
            else:
                sep = " " * (rng.randrange(0, 3) if rng else 1)
                if need and not sep:
                    sep = " "
            out.append(sep)
        out.append(t)
    return "".join(out)


def _join_groups(toks, sep):
    out = []
    for i, t in enumerate(toks):
        if i and not (toks[i - 1] == "(" or t == ")"):
            out.append(sep)
        out.append(t)
    return "".join(out)


class Interner:
    def __init__(self):
        self.ids, self.names = {}, []

    def __call__(self, s):
        s = squeeze(s)
        if s not in self.ids:
            self.ids[s] = len(self.names)
            self.names.append(s)
        return self.ids[s]


def squeeze(s):
    out, q = [], None
    for ch in s:
        if q:
            out.append(ch)
            if ch == q:
                q = None
        elif ch in "'\"":
            q = ch
            out.append(ch)
        elif ch != " ":
            out.append(ch.lower())
    return "".join(out)


def opkey(cls, sp):
    return "O%d:%d:%d" % (cls, 1 if sp.startswith(".") else 0, OPIDS(sp))


_op_ids = {}


def OPIDS(sp):
    sp = sp.lower().replace(" ", "")
    if sp not in _op_ids:
        _op_ids[sp] = len(_op_ids)
    return _op_ids[sp]


def tokens(e, I):
    k = e[0]
    if k == "a":
        return ["A%d" % I(e[1])]
    if k == "d":
        return ["D%d" % I(e[1])]
    if k == "p":
        return ["("] + tokens(e[1], I) + [")"]
    if k == "u":
        return [opkey(e[1], e[2])] + tokens(e[3], I)
    return tokens(e[3], I) + [opkey(e[1], e[2])] + tokens(e[4], I)


def bracketed(e, I):
    """the common fully-bracketed form (as printed by the model driver)"""
    k = e[0]
    if k == "a":
        return "A%d" % I(e[1])
    if k == "d":
        return "D%d" % I(e[1])
    if k == "p":
        return "[ " + bracketed(e[1], I) + " ]"
    if k == "u":
        return "{ " + opkey(e[1], e[2]) + " " + bracketed(e[3], I) + " }"
    return "{ " + bracketed(e[3], I) + " " + opkey(e[1], e[2]) + " " + bracketed(e[4], I) + " }"


def has_dotted_top(e):
    """does the rendering show a dotted token outside parentheses?"""
    k = e[0]
    if k == "d":
        return True
    if k in "ap":
        return False
    if k == "u":
        return e[2].startswith(".") or has_dotted_top(e[3])
    return e[2].startswith(".") or has_dotted_top(e[3]) or has_dotted_top(e[4])


def defop_ok(e):
    """side condition of the theorem (finding F1)"""
    k = e[0]
    if k in "ad":
        return True
    if k == "p":
        return defop_ok(e[1])
    if k == "u":
        return defop_ok(e[3])
    return defop_ok(e[3]) and defop_ok(e[4]) and not (e[1] == ODef and has_dotted_top(e[4]))


# ---- the implementation's tree
BCLS = {"Expr": ODef, "Level_5_Expr": OEqv, "Equiv_Operand": OOr, "Or_Operand": OAnd, "Level_4_Expr": ORel,
        "Level_3_Expr": OCat, "Level_2_Expr": OAdd, "Add_Operand": OMul, "Mult_Operand": OPow}
UCLS = {"And_Operand": ONot, "Level_2_Unary_Expr": OAdd, "Level_1_Expr": ODef}


def real_bracketed(node, I):
    import fp
    nm = type(node).__name__
    if isinstance(node, fp.utils.BinaryOpBase) and nm in BCLS:
        l, op, r = node.items
        return "{ " + real_bracketed(l, I) + " " + opkey(BCLS[nm], op) + " " + real_bracketed(r, I) + " }"
    if isinstance(node, fp.utils.UnaryOpBase) and nm in UCLS:
        op, x = node.items
        return "{ " + opkey(UCLS[nm], op) + " " + real_bracketed(x, I) + " }"
    if nm == "Parenthesis":
        return "[ " + real_bracketed(node.items[1], I) + " ]"
    s = str(node)
    if squeeze(s) in (".true.", ".false."):
        return "D%d" % I(s)
    return "A%d" % I(s)


def real_parse(txt):
    """returns (kind, tree) with kind in tree | nomatch | other:<Exception>"""
    import fp
    fp.parser("f2003")
    try:
        return "tree", fp.F3.Expr(txt)
    except fp.utils.NoMatchError:
        return "nomatch", None
    except Exception as e:   # noqa
        return "other:" + type(e).__name__, None


class ExprModel:
    def __init__(self):
        self.p = subprocess.Popen([DRIVER], stdin=subprocess.PIPE, stdout=subprocess.PIPE, text=True, bufsize=1)
        assert self.p.stdout.readline().strip() == "READY"

    def run(self, toks):
        self.p.stdin.write(" ".join(toks) + "\n")
        self.p.stdin.flush()
        return self.p.stdout.readline().strip()

    def close(self):
        try:
            self.p.stdin.write("QUIT\n")
            self.p.stdin.flush()
            self.p.wait(timeout=5)
        except Exception:   # noqa
            self.p.kill()


# ---- enumeration / generation of abstract trees (operators only; atoms are filled in afterwards)
def shapes(n):
    """all operator trees with exactly n operator nodes: nested tuples ('u', cls, x) | ('b', cls, l, r) | None"""
    if n == 0:
        yield None
        return
    for c in UN:
        for x in shapes(n - 1):
            yield ("u", c, x)
    for c in BIN:
        for k in range(n):
            for l in shapes(k):
                for r in shapes(n - 1 - k):
                    yield ("b", c, l, r)


def fill(shape, rng, counter=None):
    """choose spellings and atoms"""
    if shape is None:
        if rng.random() < 0.12:
            return ("d", rng.choice(DOTS))
        return ("a", rng.choice(ATOMS))
    if shape[0] == "u":
        return ("u", shape[1], rng.choice(SPELL[shape[1]])[0], fill(shape[2], rng))
    return ("b", shape[1], rng.choice(SPELL[shape[1]])[0], fill(shape[2], rng), fill(shape[3], rng))


def random_shape(rng, depth):
    if depth <= 0 or rng.random() < 0.2:
        return None
    if rng.random() < 0.25:
        return ("u", rng.choice(UN), random_shape(rng, depth - 1))
    return ("b", rng.choice(BIN), random_shape(rng, depth - 1), random_shape(rng, depth - 1))


def compare(e, model, style=0, rng=None):
    """e: a parenthesised (conforming) tree.  Returns dict(model=..., real=..., expected=..., text=...)"""
    I = Interner()
    exp = bracketed(e, I)
    m = model.run(tokens(e, I))
    txt = text(e, style, rng)
    kind, tree = real_parse(txt)
    r = real_bracketed(tree, I) if kind == "tree" else ("N" if kind == "nomatch" else kind)
    return dict(model=m, real=r, expected=exp, text=txt, ok_side=defop_ok(e))
