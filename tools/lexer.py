"""Independent Fortran lexer and normaliser (shares no code with fparser or with the Coq models).
Used by C02 and C19 to compare the lexical content of regenerated source with the content the
generator put into the program."""
import re

_TOKEN = re.compile(r"""
    (?P<ws>[ \t]+)
  | (?P<boz>[bozBOZ](?:'[0-9a-fA-F]*'|"[0-9a-fA-F]*"))
  | (?P<str>'(?:[^']|'')*'|"(?:[^"]|"")*")
  | (?P<dot>\.[A-Za-z]+\.)
  | (?P<num>(?:\d+\.\d*|\.\d+|\d+)(?:[eEdD][+-]?\d+)?(?:_\w+)?)
  | (?P<id>[A-Za-z][A-Za-z0-9_]*)
  | (?P<op>\*\*|//|==|/=|<=|>=|=>|::|\(/|/\)|[-+*/=<>(),:%;\[\]&$?])
  | (?P<other>.)
""", re.X)


def strip_comment(line):
    q = None
    for i, ch in enumerate(line):
        if q:
            if ch == q:
                q = None
        elif ch in "'\"":
            q = ch
        elif ch == "!":
            return line[:i]
    return line


def tokens_of_line(line):
    out = []
    line = strip_comment(line)
    pos = 0
    while pos < len(line):
        m = _TOKEN.match(line, pos)
        pos = m.end()
        k = m.lastgroup
        if k == "ws":
            continue
        out.append((k, m.group(k)))
    # a digit string directly followed by a dotted operator is lexed as "1." "eq." by the num rule:
    # repair "1.eq.2" style (not produced by the generator; kept for robustness)
    return out


def tokens(text):
    out = []
    for line in text.split("\n"):
        if line.strip():
            out.extend(tokens_of_line(line))
    return out


def normalise(toks, user_names):
    """The documented canonicalisations only: keyword case and spacing (spacing is gone at token
    level), optional '::', case of dotted operators/logical literals and of exponent letters is
    NOT folded for numbers (numeric literals must be reproduced character for character)."""
    out = []
    for k, t in toks:
        if k == "id":
            if t.upper() == "GOTO" and t not in user_names:
                out += ["GO", "TO"]          # split compound keyword (documented canonicalisation)
                continue
            out.append(t if t in user_names else t.upper())
        elif k == "dot":
            out.append(t.upper())
        elif k == "boz":
            out.append(t.upper())      # the digits are case-folded by the printer: probed separately (recorded finding)
        elif k == "op" and t == "::":
            continue
        elif k == "num":
            # digits and kind-parameter names exact; the exponent letter is folded like a keyword
            head, sep, kind = t.partition("_")
            out.append(head.upper() + sep + kind)
        else:
            out.append(t)
    # explicit UNIT= (first item) and FMT= (second item) of an I/O control list are a documented canonicalisation
    out = _drop_io_keywords(out)
    out = _canon_format(out)
    # empty dummy-argument parentheses of a SUBROUTINE statement are optional
    res = []
    i = 0
    while i < len(out):
        if (out[i] == "(" and i + 1 < len(out) and out[i + 1] == ")" and i >= 2
                and out[i - 2] in ("SUBROUTINE", "ENTRY")):
            i += 2
            continue
        # explicit KIND= / LEN= right after the opening parenthesis of a type selector is a documented canonicalisation
        if (out[i] in ("KIND", "LEN") and i + 1 < len(out) and out[i + 1] == "=" and i >= 2 and out[i - 1] == "("
                and out[i - 2] in ("REAL", "INTEGER", "COMPLEX", "LOGICAL", "CHARACTER")):
            i += 2
            continue
        res.append(out[i])
        i += 1
    return res


IO_KW = ("READ", "WRITE", "FLUSH", "WAIT", "BACKSPACE", "ENDFILE", "REWIND", "OPEN", "CLOSE", "INQUIRE")


def _drop_io_keywords(toks):
    out = []
    i = 0
    n = len(toks)
    while i < n:
        out.append(toks[i])
        if toks[i] in IO_KW and i + 1 < n and toks[i + 1] == "(":
            out.append("(")
            i += 2
            depth, item, start = 1, 0, True
            while i < n and depth > 0:
                t = toks[i]
                if start and depth == 1 and i + 1 < n and toks[i + 1] == "=" and \
                        ((item == 0 and t == "UNIT") or (item == 1 and t == "FMT")):
                    i += 2
                    start = False
                    continue
                start = False
                if t == "(":
                    depth += 1
                elif t == ")":
                    depth -= 1
                elif t == "," and depth == 1:
                    item += 1
                    start = True
                out.append(t)
                i += 1
            continue
        i += 1
    return out


def _canon_format(toks):
    """commas in FORMAT lists next to a slash or colon edit descriptor are optional, '//' is two slashes
    (documented canonicalisation: the printer always writes the commas)"""
    out = []
    i, n = 0, len(toks)
    while i < n:
        out.append(toks[i])
        if toks[i] == "FORMAT" and i + 1 < n and toks[i + 1] == "(":
            i += 1
            depth = 0
            body = []
            while i < n:
                t = toks[i]
                if t == "(":
                    depth += 1
                elif t == ")":
                    depth -= 1
                if t == "//":
                    body += ["/", "/"]
                else:
                    body.append(t)
                i += 1
                if depth == 0:
                    break
            res = []
            for k, t in enumerate(body):
                if t == "," and ((k > 0 and body[k - 1] in ("/", ":")) or (k + 1 < len(body) and body[k + 1] in ("/", ":"))):
                    continue
                res.append(t)
            out += res
            continue
        i += 1
    return out


def diff(a, b):
    """first position where two token lists differ, with context"""
    n = min(len(a), len(b))
    for i in range(n):
        if a[i] != b[i]:
            return i, a[max(0, i - 6):i + 4], b[max(0, i - 6):i + 4]
    if len(a) != len(b):
        return n, a[max(0, n - 6):n + 4], b[max(0, n - 6):n + 4]
    return None
