#!/bin/sh
# Run once in /verif after a fresh restore, offline: builds the Coq development and the extracted driver.
set -e
cd "$(dirname "$0")/.."
PYTHONHASHSEED=0 PYTHONPATH=/repo/src /venv/bin/python tools/translate_all.py
cd coq
coq_makefile -f _CoqProject -o Makefile > /dev/null
timeout 3000 make -j12
cd ../ocaml
./build.sh
echo "setup done"
