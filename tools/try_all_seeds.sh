#!/bin/sh
# runs every stored seeded change against the check of its property (quick tier) and prints a summary line each
for d in /verif/seeded/*/; do
  n=$(basename "$d"); pid=${n%-*}
  if grep -q "\"$pid\"" /verif/tools/claims.py; then
    out=$(/verif/tools/try_seed.sh "$d/patch.diff" "$pid" 2>&1)
    v=$(echo "$out" | grep -c "^VIOLATION")
    last=$(echo "$out" | grep "quick:" | tail -1)
    echo "$n: violations=$v | $last"
  else
    echo "$n: property not claimed yet"
  fi
done
