"""Correspondence: extracted Reader model (ocaml/_build/sldriver RD) vs the real fparser reader:
item kinds, text, label, construct name, span, in-line flag of comments, in order."""
import os
import subprocess

import layout

VERIF = os.path.dirname(os.path.dirname(os.path.abspath(__file__)))
SLDRIVER = os.path.join(VERIF, "ocaml", "_build", "sldriver")


def model_items(cases):
    """cases: list of (lines, free, omp, ign) -> list of list of tuples"""
    inp = []
    for lines, free, omp, ign in cases:
        inp.append("RD %d %d %d %d" % (free, omp, ign, len(lines)))
        for l in lines:
            inp.append(l.rstrip("\n").expandtabs().encode("latin-1", "replace").hex())
    p = subprocess.run([SLDRIVER], input="\n".join(inp) + "\nQUIT\n", capture_output=True, text=True, timeout=600)
    out = []
    cur = []
    for row in p.stdout.split("\n"):
        f = row.split(" ")
        if f[0] == "L":
            cur.append(("L", bytes.fromhex(f[5]).decode("latin-1"), None if f[3] == "-1" else int(f[3]),
                        None if f[4] == "-" else bytes.fromhex(f[4][1:]).decode("latin-1"), (int(f[1]), int(f[2]))))
        elif f[0] == "C":
            cur.append(("C", bytes.fromhex(f[4][1:]).decode("latin-1"), int(f[3]), None, (int(f[1]), int(f[2]))))
        elif f[0] == "P":
            cur.append(("P", bytes.fromhex(f[3]).decode("latin-1"), None, None, (int(f[1]), int(f[2]))))
        elif f[0] == "END":
            out.append(cur)
            cur = []
    if len(out) != len(cases):
        raise RuntimeError("sldriver produced %d results for %d cases: %s" % (len(out), len(cases), p.stderr[-300:]))
    return out


def real_items(lines, free, omp, ign):
    import fp
    src = "\n".join(lines) + "\n"
    rd = fp.FortranStringReader(src, ignore_comments=bool(ign), include_omp_conditional_lines=bool(omp))
    rd.set_format(fp.FortranFormat(bool(free), False))
    out = []
    try:
        for it in rd:
            if isinstance(it, fp.readfortran.Comment):
                out.append(("C", it.comment, 1 if it.inline else 0, None, tuple(it.span)))
            elif isinstance(it, fp.readfortran.CppDirective):
                out.append(("P", it.line, None, None, tuple(it.span)))
            else:
                out.append(("L", it.line, it.label, it.name, tuple(it.span)))
    except SystemExit:
        out.append(("EXIT",))
    return out


def canon(items, squeeze_semis=True):
    """items sharing a span with another Line come from a ';' split: compare modulo blanks"""
    spans = {}
    for it in items:
        if it[0] == "L":
            spans[it[4]] = spans.get(it[4], 0) + 1
    out = []
    for it in items:
        if it[0] == "L" and squeeze_semis and spans.get(it[4], 0) > 1:
            out.append(("L", layout.squeeze(it[1]), it[2], it[3], it[4]))
        else:
            out.append(it)
    return out


def compare(cases):
    ms = model_items(cases)
    res = []
    for case, m in zip(cases, ms):
        r = real_items(*case)
        if r and r[-1] == ("EXIT",):
            r = r[:-1]          # reader.error() -> sys.exit: the model stops with its error flag
            ok = canon(m) == canon(r) or canon(m)[:len(r)] == canon(r)
        else:
            ok = canon(m) == canon(r)
        res.append((ok, m, r))
    return res


def _worker(chunk):
    return [(ok, m if not ok else None, r if not ok else None) for ok, m, r in compare(chunk)]


def corr_cases(cases, nproc=None):
    import pool
    chunks = [cases[i:i + 40] for i in range(0, len(cases), 40)]
    res = pool.pmap(_worker, chunks, nproc=nproc, chunksize=1)
    dis = []
    n = 0
    for chunk, (st, r) in zip(chunks, res):
        if st != "ok":
            dis.append(dict(harness_error=r[:500]))
            continue
        for case, (ok, m, rr) in zip(chunk, r):
            n += 1
            if not ok:
                dis.append(dict(lines=case[0], free=case[1], omp=case[2], ign=case[3], model=m[:12], impl=rr[:12]))
    return dict(cases=n, disagreements=dis)
