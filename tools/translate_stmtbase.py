"""Reads off, for every fparser2 rule class whose match() is nothing but a call of EndStmtBase.match or of
WORDClsBase.match with constant arguments, those arguments (statement type / keyword, whether a name or a
sub-rule class is given, require_stmt_type / colons / require_cls) -- by parsing the source of match() with
ast: any other shape leaves the class out (listed as not modelled), an unreadable argument stops the run.
Emits coq/Gen/StmtBaseGen.v.  Fail closed."""
import ast
import inspect
import os
import textwrap


def _classes():
    import fparser.two.Fortran2003 as F3
    import fparser.two.Fortran2008 as F8
    from fparser.two import utils
    out = []
    for std, mod in (("f2003", F3), ("f2008", F8)):
        for name in sorted(vars(mod)):
            c = getattr(mod, name)
            if isinstance(c, type) and issubclass(c, utils.Base) and "match" in c.__dict__:
                if std == "f2008" and getattr(F3, name, None) is c:
                    continue
                out.append((std, name, c, mod))
    return out


def _is_name_class(c):
    """the class argument matches exactly what Name matches"""
    from fparser.two import Fortran2003 as F3
    if c is F3.Name or (issubclass(c, F3.Name) and "match" not in c.__dict__ and "__new__" not in c.__dict__):
        return True
    return "match" not in c.__dict__ and list(getattr(c, "subclass_names", [])) == ["Name"] and not getattr(c, "use_names", [])


def read_off():
    """-> (ends, words, skipped): ends = [(std, cls, stype, named, req)], words = [(std, cls, kw, has_cls, colons, req)];
    the literal-string classes and the bracket classes are left in the module-level lists STRINGS / BRACKETS:
    [(std, cls, [patterns], fold)] and [(std, cls, brackets, has_cls, req)]"""
    ends, words, skipped = [], [], []
    del STRINGS[:], BRACKETS[:]
    for std, name, c, mod in _classes():
        fn = c.__dict__["match"]
        fn = getattr(fn, "__func__", fn)
        try:
            src = textwrap.dedent(inspect.getsource(fn))
            tree = ast.parse(src)
        except (OSError, TypeError, SyntaxError):
            continue
        f = tree.body[0]
        if not isinstance(f, ast.FunctionDef):
            continue
        body = [s for s in f.body if not (isinstance(s, ast.Expr) and isinstance(getattr(s, "value", None), ast.Constant)
                                          and isinstance(s.value.value, str))]
        if len(body) != 1 or not isinstance(body[0], ast.Return) or not isinstance(body[0].value, ast.Call):
            if "EndStmtBase.match" in src or "WORDClsBase.match" in src:
                skipped.append((std, name, "match() does more than delegate"))
            continue
        call = body[0].value
        fnm = ast.unparse(call.func)
        args = call.args
        kws = {k.arg: k.value for k in call.keywords}
        par = f.args.args[0].arg
        if fnm in ("STRINGBase.match", "StringBase.match"):
            # a string or a list of strings as the pattern; the text is the parameter or its upper() (== folding)
            if len(args) != 2 or kws:
                continue
            pat = args[0]
            if isinstance(pat, ast.Constant) and isinstance(pat.value, str):
                pats = [pat.value]
            elif isinstance(pat, (ast.List, ast.Tuple)) and pat.elts and all(isinstance(e, ast.Constant) and isinstance(e.value, str) for e in pat.elts):
                pats = [e.value for e in pat.elts]
            else:
                skipped.append((std, name, "pattern is not a literal: " + ast.unparse(pat)[:40]))
                continue
            arg = ast.unparse(args[1])
            if arg == par:
                fold = fnm == "STRINGBase.match"
            elif arg == par + ".upper()":
                fold = True
            else:
                skipped.append((std, name, "the text handed on is " + arg))
                continue
            STRINGS.append((std, name, pats, fold))
            continue
        if fnm == "BracketBase.match":
            if len(args) != 3 or set(kws) - {"require_cls"} or ast.unparse(args[2]) != par \
                    or not (isinstance(args[0], ast.Constant) and isinstance(args[0].value, str)):
                skipped.append((std, name, "BracketBase.match with arguments that are not understood"))
                continue
            rc = kws.get("require_cls")
            if rc is not None and not (isinstance(rc, ast.Constant) and isinstance(rc.value, bool)):
                raise RuntimeError("%s.match: require_cls is not a constant" % name)
            has = not (isinstance(args[1], ast.Constant) and args[1].value is None)
            BRACKETS.append((std, name, args[0].value, has, True if rc is None else rc.value))
            continue
        if fnm not in ("EndStmtBase.match", "WORDClsBase.match"):
            continue
        if len(args) < 3 or not (isinstance(args[2], ast.Name) and args[2].id == f.args.args[0].arg):
            skipped.append((std, name, "the text handed on is not the parameter itself"))
            continue
        if not (isinstance(args[0], ast.Constant) and isinstance(args[0].value, str)):
            skipped.append((std, name, "keyword is not a string constant: " + ast.unparse(args[0])))
            continue

        def const_bool(node, what):
            if node is None:
                return False
            if isinstance(node, ast.Constant) and isinstance(node.value, bool):
                return node.value
            raise RuntimeError("%s.match: %s is not a constant" % (name, what))
        a1 = args[1]
        if isinstance(a1, ast.Constant) and a1.value is None:
            sub = None
        elif isinstance(a1, ast.Name):
            sub = getattr(mod, a1.id, None)
            if sub is None:
                import fparser.two.Fortran2003 as F3
                sub = getattr(F3, a1.id, None)
            if sub is None:
                raise RuntimeError("%s.match: class argument %s not found" % (name, a1.id))
        else:
            raise RuntimeError("%s.match: class argument %s not understood" % (name, ast.unparse(a1)))
        if fnm == "EndStmtBase.match":
            extra = args[3] if len(args) > 3 else kws.get("require_stmt_type")
            if set(kws) - {"require_stmt_type"} or len(args) > 4:
                raise RuntimeError("%s.match: unexpected arguments of EndStmtBase.match" % name)
            if sub is not None and not _is_name_class(sub):
                skipped.append((std, name, "name class %s is not Name" % sub.__name__))
                continue
            ends.append((std, name, args[0].value, sub is not None, const_bool(extra, "require_stmt_type")))
        else:
            if set(kws) - {"colons", "require_cls"} or len(args) > 5:
                raise RuntimeError("%s.match: unexpected arguments of WORDClsBase.match" % name)
            colons = const_bool(args[3] if len(args) > 3 else kws.get("colons"), "colons")
            req = const_bool(args[4] if len(args) > 4 else kws.get("require_cls"), "require_cls")
            words.append((std, name, args[0].value, sub is not None, colons, req))
    return ends, words, skipped


STRINGS = []
BRACKETS = []


def name_and_label_tied():
    """Name.match / Label.match are the modelled calls and the two patterns are the modelled regular expressions"""
    import re
    import fparser.two.Fortran2003 as F3
    from fparser.two import pattern_tools as pattern
    out = {}
    for cls, call, pat, want in ((F3.Name, "StringBase.match(pattern.abs_name, string.strip())", pattern.abs_name, r"\A(?:[A-Z][\w$]*)\Z"),
                                 (F3.Label, "StringBase.match(pattern.abs_label, string)", pattern.abs_label, r"\A(?:\d{1,5})\Z")):
        fn = cls.__dict__["match"]
        fn = getattr(fn, "__func__", fn)
        tree = ast.parse(textwrap.dedent(inspect.getsource(fn)))
        body = [s for s in tree.body[0].body if not (isinstance(s, ast.Expr) and isinstance(getattr(s, "value", None), ast.Constant))]
        ok = len(body) == 1 and isinstance(body[0], ast.Return) and ast.unparse(body[0].value) == call
        ok = ok and pat.pattern == want and (pat._flags & re.I if cls is F3.Name else True)
        out[cls.__name__] = bool(ok)
    return out


def _txt(s):
    return "[" + "; ".join('"%s"' % ch if ch != '"' else '""""' for ch in s) + "]%char"


def generate(gen_dir):
    ends, words, skipped = read_off()
    if len(ends) < 10 or len(words) < 10 or len(STRINGS) < 8 or len(BRACKETS) < 4:
        raise RuntimeError("too few delegating classes found (%d END, %d WORD): the source layout changed" % (len(ends), len(words)))
    b = lambda x: "true" if x else "false"   # noqa
    with open(os.path.join(gen_dir, "StmtBaseGen.v"), "w") as f:
        f.write("(* generated by tools/translate_stmtbase.py from the source of the live match() methods -- do not edit *)\n")
        f.write("From Coq Require Import List Ascii String.\nImport ListNotations.\nLocal Open Scope string_scope.\n")
        f.write("(* class, statement type, a name class is given, require_stmt_type *)\n")
        f.write("Definition end_classes : list (string * list ascii * bool * bool) := [\n")
        f.write(";\n".join('  ("%s:%s", %s, %s, %s)' % (std, n, _txt(t), b(nm), b(rq)) for std, n, t, nm, rq in ends))
        f.write("].\n(* class, keyword, a sub-rule class is given, colons, require_cls *)\n")
        f.write("Definition word_classes : list (string * list ascii * bool * bool * bool) := [\n")
        f.write(";\n".join('  ("%s:%s", %s, %s, %s, %s)' % (std, n, _txt(k), b(h), b(c), b(r)) for std, n, k, h, c, r in words))
        f.write("].\n")
        f.write("(* class, literal patterns, the text is upper-cased first *)\n")
        f.write("Definition string_classes : list (string * list (list ascii) * bool) := [\n")
        f.write(";\n".join('  ("%s:%s", [%s], %s)' % (std, n, "; ".join(_txt(p) for p in ps), b(fo)) for std, n, ps, fo in STRINGS))
        f.write("].\n(* class, brackets, a sub-rule class is given, require_cls *)\n")
        f.write("Definition bracket_classes : list (string * list ascii * bool * bool) := [\n")
        f.write(";\n".join('  ("%s:%s", %s, %s, %s)' % (std, n, _txt(br), b(h), b(r)) for std, n, br, h, r in BRACKETS))
        f.write("].\n")
        nl = name_and_label_tied()
        f.write("(* Name.match / Label.match are the modelled calls with the modelled regular expressions *)\n")
        f.write("Definition name_class_tied : bool := %s.\nDefinition label_class_tied : bool := %s.\n" % (b(nl["Name"]), b(nl["Label"])))
        f.write("(* not modelled (match() does more than delegate, or the name class is not Name): %s *)\n"
                % ", ".join("%s:%s" % (s, n) for s, n, _ in skipped))


if __name__ == "__main__":
    generate(os.path.join(os.path.dirname(os.path.abspath(__file__)), "..", "coq", "Gen"))
    e, w, s = read_off()
    print(len(e), "END classes;", len(w), "WORD classes;", len(STRINGS), "string classes;", len(BRACKETS), "bracket classes; skipped:", s)
