"""Correspondence: the Gallina models of EndStmtBase.match/tostr and WORDClsBase.match (coq/Model/StmtBase.v),
evaluated inside Coq (vm_compute over a generated cases file), against the live statement classes that delegate to
them (the classes and their constant arguments are read off by translate_stmtbase on every run).
END classes are exercised through their own match() and str(); WORDClsBase.match is called with each class's
recorded arguments and a probe in place of the sub-rule class (the model leaves the sub-rule outside)."""
import os
import random
import subprocess

import common

COQ = os.path.join(common.VERIF, "coq")
NAMES = ["nm", "a", "Abc_1", "x$y", "e2", "_u", "1x", "a b", "a!", "n.m", "endx", "A" * 20, ""]


def _mut(rng, s):
    if not s:
        return s
    k = rng.randrange(5)
    p = rng.randrange(len(s))
    if k == 0:
        return s[:p] + s[p + 1:]
    if k == 1:
        return s[:p] + rng.choice(" x_(:1$") + s[p:]
    if k == 2:
        return s[:p] + s[p].swapcase() + s[p + 1:]
    if k == 3:
        return s[:p] + " " + s[p:]
    return s + rng.choice([" ", "x", "  y", ":"])


def end_inputs(stype, rng, n):
    t = stype
    base = ["END", "end", "EnD", "END ", " END", "EN", "", "ENDX", "END X", "END " + t, "end " + t.lower(), "END" + t, "END   " + t.lower(),
            "END " + t + " ", "END " + t.replace(" ", ""), "END " + t.replace(" ", "  "), "END " + t[:-1], "END " + t + "X",
            "ENDIF", "END DO", "END " + t.capitalize() + "  nm  "]
    for nm in NAMES:
        base += ["END %s %s" % (t, nm), "end %s %s" % (t.lower(), nm), "END%s%s" % (t, nm), "END  %s   %s " % (t.swapcase(), nm),
                 "END %s%s" % (t.replace(" ", ""), nm)]
    out = list(base)
    while len(out) < n:
        out.append(_mut(rng, rng.choice(base)))
    return out[:n]


def word_inputs(kw, rng, n):
    rests = ["a", "a, b", ":: a", "::a", " :: a", ":: ", "::", "(a)", "*8", "/x/", "'s'", "1", "_a", ": a", ":::a", "a ::", "  a  ", "=1", ""]
    base = [kw, kw.lower(), kw + " ", " " + kw, kw[:-1], kw + "X", kw + "1", kw + "_", kw.lower() + "x", ""]
    for r in rests:
        base += [kw + " " + r, kw.lower() + r, kw + "  " + r, " " + kw.capitalize() + " " + r]
    out = list(base)
    while len(out) < n:
        out.append(_mut(rng, rng.choice(base)))
    return out[:n]


def string_inputs(pats, rng, n):
    base = ["", " ", "*", ":", "x", "PRIVATEX", "PUBLIC ", " PASS"]
    for p in pats:
        base += [p, p.lower(), p.capitalize(), p.swapcase(), p + " ", " " + p, p + "X", p[:-1], p + p]
    out = list(base)
    while len(out) < n:
        out.append(_mut(rng, rng.choice(base)))
    return out[:n]


def bracket_inputs(br, rng, n):
    k = len(br) // 2
    lft, rgt = br[:k], br[k:]
    inners = ["a", " a ", "", " ", "a, b", "(a)", "a)(b", lft, rgt, "1:2", "'s'", "a" + rgt]
    base = ["", lft, rgt, lft + rgt, rgt + lft, "x", lft + "a", "a" + rgt]
    for i in inners:
        base += [lft + i + rgt, " " + lft + i + rgt + " ", lft + " " + i + rgt, "x" + lft + i + rgt, lft + i + rgt + "x"]
    out = list(base)
    while len(out) < n:
        out.append(_mut(rng, rng.choice(base)))
    return out[:n]


def _codes(s):
    return "[" + ";".join(str(ord(c)) for c in s) + "]"


def run_python(seed, per_class):
    import translate_stmtbase as T
    from fparser.two.parser import ParserFactory
    from fparser.two import utils
    import fparser.two.Fortran2003 as F3
    import fparser.two.Fortran2008 as F8
    ends, words, skipped = T.read_off()
    rng = random.Random(seed)
    cases = []       # (kind, params, input, expected-as-coq, python-description)
    for std, name, stype, named, req in ends:
        ParserFactory().create(std=std)
        cls = getattr(F8 if std == "f2008" else F3, name)
        for s in end_inputs(stype, rng, per_class):
            if not all(32 <= ord(c) < 127 for c in s):
                continue
            try:
                r = cls.match(s)
            except utils.NoMatchError:
                exp, printed = "ENameFail", None
            else:
                if r is None:
                    exp, printed = "ENoMatch", None
                elif r == (None, None):
                    exp, printed = "EBare", "END"
                elif r[1] is None:
                    exp, printed = ("EType" if r[0] == stype else "EWRONG"), "END %s" % r[0]
                else:
                    exp, printed = "(ENamed (T %s))" % _codes(r[1].string), "END %s %s" % (r[0], r[1].string)
                if printed is not None:
                    # what the class itself prints for this match
                    try:
                        printed = str(cls(s))
                    except utils.NoMatchError:
                        printed = None
            cases.append(("E", (std + ":" + name, stype, named, req), s, exp, printed))
    for std, name, kw, has, colons, req in words:
        probe = (lambda line: line) if has else None
        for s in word_inputs(kw, rng, per_class):
            if not all(32 <= ord(c) < 127 for c in s):
                continue
            r = utils.WORDClsBase.match(kw, probe, s, colons=colons, require_cls=req)
            if r is None:
                exp = "WNoMatch"
            elif r[1] is None:
                exp = "WBare" if r[0] == kw else "WWRONG"
            else:
                exp = "(WRest (T %s))" % _codes(r[1]) if r[0] == kw else "WWRONG"
            cases.append(("W", (std + ":" + name, kw, has, colons, req), s, exp, None))
    for std, name, pats, fold in T.STRINGS:
        ParserFactory().create(std=std)
        cls = getattr(F8 if std == "f2008" else F3, name)
        for s in string_inputs(pats, rng, per_class):
            if not all(32 <= ord(c) < 127 for c in s):
                continue
            r = cls.match(s)
            exp = "None" if r is None else ("(Some (T %s))" % _codes(r[0]) if len(r) == 1 else "SWRONG")
            cases.append(("S", (std + ":" + name, pats, fold), s, exp, None))
    for std, name, br, has, req in T.BRACKETS:
        probe = (lambda line: line) if has else None
        for s in bracket_inputs(br, rng, per_class):
            if not all(32 <= ord(c) < 127 for c in s):
                continue
            r = utils.BracketBase.match(br, probe, s, require_cls=req)
            k = len(br.replace(" ", "")) // 2
            if r is None:
                exp = "BNo"
            elif (r[0], r[2]) != (br.replace(" ", "")[:k], br.replace(" ", "")[k:]):
                exp = "BWRONG"
            elif r[1] is None:
                exp = "BEmpty"
            else:
                exp = "(BIn (T %s))" % _codes(r[1])
            cases.append(("B", (std + ":" + name, br, has, req), s, exp, None))
    ParserFactory().create(std="f2003")
    names = NAMES + ["abc", " abc ", "a1_$", "$a", "_a", "A", "a b", "a.b", "1", "x" * 70, "\tq\t"]
    labels = ["1", "12345", "123456", "", "0", "00010", "1a", " 10", "10 ", "+1", "99999"]
    for s in names + [_mut(rng, rng.choice(names)) for _ in range(per_class)]:
        if not all(32 <= ord(c) < 127 or c == "\t" for c in s):
            continue
        r = F3.Name.match(s)
        cases.append(("N", ("f2003:Name",), s, "None" if r is None else "(Some (T %s))" % _codes(r[0]), None))
    for s in labels + [_mut(rng, rng.choice(labels)) for _ in range(per_class)]:
        if not all(32 <= ord(c) < 127 for c in s):
            continue
        r = F3.Label.match(s)
        cases.append(("L", ("f2003:Label",), s, "None" if r is None else "(Some (T %s))" % _codes(r[0]), None))
    return cases, len(ends), len(words), skipped, len(T.STRINGS), len(T.BRACKETS)


def corr(seed, per_class):
    cases, nend, nword, skipped, nstr, nbr = run_python(seed, per_class)
    b = lambda x: "true" if x else "false"    # noqa
    lines = ["From Coq Require Import List Bool Arith Ascii.", "From FV Require Import SplitLine Text Reader StmtBase.",
             "Import ListNotations.", "Definition T (l : list nat) : text := map ch l.",
             "Definition endres_eqb (a b : endres) : bool := match a, b with ENoMatch, ENoMatch | EBare, EBare | EType, EType "
             "| ENameFail, ENameFail => true | ENamed x, ENamed y => text_eqb x y | _, _ => false end.",
             "Definition wordres_eqb (a b : wordres) : bool := match a, b with WNoMatch, WNoMatch | WBare, WBare => true "
             "| WRest x, WRest y => text_eqb x y | _, _ => false end.",
             "Definition E st nm rq s ex (pr : option text) : bool := let r := end_match (T st) nm rq (T s) in "
             "endres_eqb r ex && match pr with Some p => text_eqb (end_tostr (T st) r) p | None => true end.",
             "Definition W kw h c rq s ex : bool := wordres_eqb (word_match (T kw) h c rq (T s)) ex.",
             "Definition SM (ps : list (list nat)) fo s (ex : option text) : bool := match strings_match (map T ps) fo (T s), ex with "
             "Some a, Some b => text_eqb a b | None, None => true | _, _ => false end.",
             "Definition bres_eqb (a b : bres) : bool := match a, b with BNo, BNo | BEmpty, BEmpty => true "
             "| BIn x, BIn y => text_eqb x y | _, _ => false end.",
             "Definition B br h rq s ex : bool := bres_eqb (bracket_match (T br) h rq (T s)) ex.",
             "Definition oeq (a b : option text) : bool := match a, b with Some x, Some y => text_eqb x y | None, None => true | _, _ => false end.",
             "Definition NM s ex : bool := oeq (name_match (T s)) ex.",
             "Definition LB s ex : bool := oeq (label_match (T s)) ex.",
             "Fixpoint bad (l : list bool) (i : nat) : list nat := match l with [] => [] | x :: r => "
             "if x then bad r (S i) else i :: bad r (S i) end.", "Definition cases : list bool := ["]
    rows = []
    for kind, par, s, exp, printed in cases:
        if exp in ("EWRONG", "WWRONG", "SWRONG", "BWRONG"):
            rows.append("false")
        elif kind == "E":
            rows.append("E %s %s %s %s %s %s" % (_codes(par[1]), b(par[2]), b(par[3]), _codes(s), exp,
                                                  "(Some (T %s))" % _codes(printed) if printed is not None else "None"))
        elif kind == "W":
            rows.append("W %s %s %s %s %s %s" % (_codes(par[1]), b(par[2]), b(par[3]), b(par[4]), _codes(s), exp))
        elif kind == "N":
            rows.append("NM %s %s" % (_codes(s), exp))
        elif kind == "L":
            rows.append("LB %s %s" % (_codes(s), exp))
        elif kind == "S":
            rows.append("SM [%s] %s %s %s" % (";".join(_codes(x) for x in par[1]), b(par[2]), _codes(s), exp))
        else:
            rows.append("B %s %s %s %s %s" % (_codes(par[1]), b(par[2]), b(par[3]), _codes(s), exp))
    lines.append(";\n".join(rows) + "].")
    lines.append("Eval vm_compute in (bad cases 0).")
    d = os.environ.get("VERIF_CORR_DIR") or os.path.join(COQ, "Corr")
    os.makedirs(d, exist_ok=True)
    path = os.path.join(d, "StmtBaseCases.v")
    with open(path, "w") as f:
        f.write("\n".join(lines) + "\n")
    extra = ["-Q", os.environ["VERIF_COQ_EXTRA"], "FV"] if os.environ.get("VERIF_COQ_EXTRA") else []   # development only
    r = subprocess.run(["timeout", "600", "coqc", "-Q", COQ, "FV"] + extra + [path], capture_output=True, text=True, cwd=COQ)
    out = r.stdout + r.stderr
    dis = []
    if r.returncode != 0 or "= [" not in out:
        dis.append(dict(what="the cases file does not compile", log=out[-600:]))
    else:
        body = out.split("= [", 1)[1].split("]", 1)[0]
        idx = [int(x) for x in body.replace("\n", " ").split(";") if x.strip()]
        for i in idx[:20]:
            kind, par, s, exp, printed = cases[i]
            dis.append(dict(what="model and implementation differ", cls=par[0], params=[str(x) for x in par[1:]], input=s,
                            implementation=exp, printed=printed))
    for ext in (".vo", ".vok", ".vos", ".glob"):
        try:
            os.unlink(path[:-2] + ext)
        except OSError:
            pass
    try:
        os.unlink(os.path.join(d, ".StmtBaseCases.aux"))
    except OSError:
        pass
    return dict(cases=len(cases), disagreements=dis, end_classes=nend, word_classes=nword, string_classes=nstr, bracket_classes=nbr,
                not_modelled=["%s:%s (%s)" % x for x in skipped],
                samples=[dict(cls=cases[3][1][0], input=cases[3][2], implementation=cases[3][3])] if len(cases) > 3 else [])


if __name__ == "__main__":
    import json
    import sys
    sys.path.insert(0, "/repo/src")
    print(json.dumps(corr(1, 40), indent=1)[:3000])
