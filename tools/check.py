#!/venv/bin/python
"""Entry point of every check:  check.py Cxx [--tier quick|thorough] [--replay FILE]"""
import argparse
import importlib
import json
import os
import sys

os.environ.setdefault("PYTHONHASHSEED", "0")
HERE = os.path.dirname(os.path.abspath(__file__))
sys.path.insert(0, HERE)
sys.path.insert(0, "/repo/src")
import common  # noqa: E402


def main():
    ap = argparse.ArgumentParser()
    ap.add_argument("pid")
    ap.add_argument("--tier", default=os.environ.get("VERIF_TIER", "quick"))
    ap.add_argument("--replay")
    a = ap.parse_args()
    seed = int(os.environ.get("VERIF_SEED", "20260925"))
    mod = importlib.import_module("props." + a.pid.lower())
    ctx = common.Ctx(a.pid, a.tier, seed)
    if a.replay:
        data = json.load(open(a.replay))
        ok = mod.replay(ctx, data)
        print("REPLAY %s: %s" % (a.replay, "property holds on this input" if ok else "property FAILS on this input"))
        sys.exit(0 if ok else 1)
    sys.exit(mod.run(ctx))


if __name__ == "__main__":
    main()
