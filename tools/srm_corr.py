"""Correspondence: the Gallina model of string_replace_map and of the matchers that cut a text at separators outside
literals and bracketed groups (coq/Model/Srm.v: srm, seq_match, sep_match, call_match, kv_match), evaluated inside Coq
(vm_compute over a generated cases file), against the implementation: string_replace_map itself (the replaced line
with every key abstracted to its kind, and what the returned map restores) and SequenceBase / SeparatorBase / CallBase /
KeywordValueBase.match called with the constant arguments of every live class that delegates to them (read off by
translate_srm on every run) and a probe in place of the sub-rule classes (the model leaves the sub-rules outside:
it predicts the texts handed to them)."""
import os
import random
import re
import subprocess

import common

COQ = os.path.join(common.VERIF, "coq")

ATOMS = ["a", "b1", "x_y", "n", "1", "42", "1.0e-3", "2d0", ".5E+2", "1e5_8", "3.e2_dp", "1.5", "'s'", "'a,b'", '"x(y"', "'it''s'", "''",
         "'a:b'", '"%"', "'='", "'a b'", '" "', "(a, b)", "( n )", "(n)", "(1e5)", "( 2.d0 )", "((a),(b))", "(a(1,2), 'p,q')", "[1, 2]",
         "(/1,2/)", "a(i)%b(j)", "f(x, y)", "f()", "f( )", "k=(1,2)", "x = y", "1:2", ":", "a:", ":b", "lo : hi", "(a:b, c)", "*", "-x+1",
         ".true.", "a .and. b", "f(g(h(1, 2), 3), 'z')", "c(1:2)(3:4)", "(1e5x)", "(x1e5)", "(1e+5, 2)", "('q')", '("a,b")', "(a)(b)",
         "stat", "STAT=s", "unit = 10", "fmt='(a, i3)'", "file = 'a=b.txt'", "a == b", "a => b", "p(1:n) => q"]
BROKEN = ["(a", "a)", ")(", "((a)", "(a))", "'abc", "a'", "\\(", "a\\,b", "'a\\'", "(a, 'b)", "[a, (b])", "(a]", "(", ")", "'", '"', "\\", "(()",
          "f(a, (b, c)", "f(a))", "'x' 'y'", "a'b,c'd", "(a 'b)' c)"]
BLANKS = ["", " ", "  "]


def _mut(rng, s):
    if not s:
        return rng.choice([",", " ", "(", ")"])
    k = rng.randrange(6)
    p = rng.randrange(len(s))
    if k == 0:
        return s[:p] + s[p + 1:]
    if k == 1:
        return s[:p] + rng.choice(" ,:()'\"%=[]\\e1.") + s[p:]
    if k == 2:
        return s[:p] + s[p].swapcase() + s[p + 1:]
    if k == 3:
        return s[:p] + " " + s[p:]
    if k == 4:
        q = rng.randrange(len(s))
        a, b = min(p, q), max(p, q)
        return s[:a] + s[b:]
    return s + rng.choice([" ", ")", ",", " )", "  x", ":"])


def texts(rng, n, seps, heads=()):
    """mostly well-formed texts built from the atoms, a quarter broken or mutated"""
    out = ["", " ", ",", ", ,", "a", " a ", "a,b", "a , b", "(a,b),c", "a,(b,c)", "'a,b',c", "f(x)", " f ( x ) ", "f(x) ", "f(x)y", "(x)", "f((x))",
           "f(x)(y)", "f(a, b)%g(c)", "a%b%c", "a % b", "a:b", "a : b : c", "(a:b):c", "'a:b':c", ": ", " :", "k=v", "k = v", " k= v=w", "=v", "k=",
           "k=='a'", "f(1.0e-3)", "'a b'(1:2)", '"it""s"(2:3)', "k_'x y'(1:1)", "'a(b'(1:2)", "a(i+1)(2:3)", "'p q' (1:2)", "f( 1e5 )", "f(1e5, 2)", "( n ),( m )", "a(:), b(1:2)", "f('(')", 'f(")")', "f('a''b, c')"]
    for h in heads:
        out += [h + "(a)", h.lower() + " (a, b)", h + "()", h + " ( )", h + "x(a)", " " + h + "(a) ", h, h + "(a", h + "(a))", h + "((a), b)",
                h.capitalize() + "(unit=1, file='a,b')"]
    while len(out) < n:
        r = rng.random()
        k = rng.randrange(1, 5)
        parts = [rng.choice(ATOMS if rng.random() < 0.9 else BROKEN) for _ in range(k)]
        s = ""
        for i, pt in enumerate(parts):
            if i:
                s += rng.choice(BLANKS) + rng.choice(seps) + rng.choice(BLANKS)
            s += pt
        if r < 0.25:
            s = rng.choice(BLANKS) + s + rng.choice(BLANKS)
        elif r < 0.40:
            hd = rng.choice(["f", "open", "a%b", "x y", ""] + list(heads)) if rng.random() < 0.6 else rng.choice(ATOMS)
            s = hd + rng.choice(BLANKS) + "(" + s + ")" + rng.choice(BLANKS)
        elif r < 0.55:
            for _ in range(rng.randrange(1, 3)):
                s = _mut(rng, s)
        out.append(s)
    return [s for s in out[:n] if all(32 <= ord(c) < 127 for c in s) and "F2PY" not in s]


def _codes(s):
    return "[" + ";".join(str(ord(c)) for c in s) + "]"


def _opt(x):
    return "None" if x is None else "(Some (T %s))" % _codes(x)


_KEY = re.compile(r"(_F2PY_STRING_CONSTANT_\d+_|F2PY_REAL_CONSTANT_\d+_|F2PY_EXPR_TUPLE_\d+)")


def shape(line, m):
    """the replaced line with every key abstracted to its kind (1: literal body, 2: bracketed body); real-constant keys,
    which the model leaves in place, are expanded"""
    def sub(mo):
        k = mo.group(1)
        if k.startswith("_F2PY_STRING"):
            return "\x01"
        if k.startswith("F2PY_EXPR"):
            return "\x02"
        return m[k]
    return _KEY.sub(sub, line)


def run_python(seed, n_each):
    import translate_srm as T
    from fparser.two import utils
    from fparser.common.splitline import string_replace_map
    r = T.read_off()
    rng = random.Random(seed)
    probe = lambda line: "\x03" + line    # noqa: marks what went through the sub-rule class
    cases = []       # (kind, params, input, coq expression that must evaluate to true, description of the implementation's answer)
    b = lambda x: "true" if x else "false"   # noqa
    for s in texts(rng, n_each * 3, ",:%=", heads=("OPEN", "PASS")):
        line, m = string_replace_map(s)
        cases.append(("R", ("string_replace_map",), s, "RM %s %s %s" % (_codes(s), _codes(shape(line, m)), _codes(m(line))),
                      dict(line=line, restored=m(line))))
    seqs = sorted(set(sep for _, _, sep in r["seq"]))
    for sep in seqs:
        who = "SequenceBase '%s' (%d classes)" % (sep, sum(1 for x in r["seq"] if x[2] == sep))
        for s in texts(rng, n_each * 2, sep + ",:"):
            got = utils.SequenceBase.match(sep, probe, s)
            if got is None or got[0] != sep or any(not e.startswith("\x03") for e in got[1]):
                cases.append(("Q", (who,), s, "false", repr(got)))
                continue
            ents = [e[1:] for e in got[1]]
            cases.append(("Q", (who,), s, "SQ %d %s [%s]" % (ord(sep), _codes(s), ";".join("T " + _codes(e) for e in ents)), ents))
    for par in sorted(set(x[2:] for x in r["sep"])):
        hl, hr, ql, qr = par
        who = "SeparatorBase %s (%s)" % (par, ",".join(x[1] for x in r["sep"] if x[2:] == par))
        for s in texts(rng, n_each, ":,"):
            got = utils.SeparatorBase.match(probe if hl else None, probe if hr else None, s, require_lhs=ql, require_rhs=qr)
            if got is None:
                exp = "SepNo"
            else:
                a, c = got
                if any(x is not None and not x.startswith("\x03") for x in (a, c)):
                    cases.append(("P", (who,), s, "false", repr(got)))
                    continue
                exp = "(SepOk %s %s)" % (_opt(a[1:] if a is not None else None), _opt(c[1:] if c is not None else None))
            cases.append(("P", (who,), s, "SP %s %s %s %s %s %s" % (b(hl), b(hr), b(ql), b(qr), _codes(s), exp), repr(got)))
    for par in sorted(set(x[2:] for x in r["call"]), key=repr):
        kw, up, rq = par
        who = "CallBase %s (%s)" % (par, ",".join(x[1] for x in r["call"] if x[2:] == par))
        for s in texts(rng, n_each, ",:%", heads=(kw,) if kw else ("f",)):
            got = utils.CallBase.match(kw if kw is not None else probe, probe, s, upper_lhs=up, require_rhs=rq)
            if got is None:
                exp = "CallNo"
            else:
                a, c = got
                if kw is None and not a.startswith("\x03"):
                    cases.append(("C", (who,), s, "false", repr(got)))
                    continue
                if c is not None and not c.startswith("\x03"):
                    cases.append(("C", (who,), s, "false", repr(got)))
                    continue
                exp = "(CallOk (T %s) %s)" % (_codes(a if kw is not None else a[1:]), _opt(c[1:] if c is not None else None))
            cases.append(("C", (who,), s, "CL %s %s %s %s %s" % (_opt(kw), b(up), b(rq), _codes(s), exp), repr(got)))
    kvs = set(x[2:] for x in r["kv"]) | {("STAT", True, True), ("UNIT", True, True), ("KIND", False, True), ("LEN", False, False), (None, False, False),
                                         (None, True, True)}
    for par in sorted(kvs, key=repr):
        kw, rq, up = par
        who = "KeywordValueBase %s (%s)" % (par, ",".join(x[1] for x in r["kv"] if x[2:] == par))
        for s in texts(rng, n_each, "=,", heads=()) + ([kw + "=x", kw.lower() + " = x", " " + kw.capitalize() + "= (a=b)", kw + "x=1", kw + " =", kw] if kw else []):
            got = utils.KeywordValueBase.match(kw if kw is not None else probe, probe, s, require_lhs=rq, upper_lhs=up)
            if got is None:
                exp = "KvNo"
            else:
                a, c = got
                if not c.startswith("\x03") or (kw is None and a is not None and not a.startswith("\x03")):
                    cases.append(("K", (who,), s, "false", repr(got)))
                    continue
                exp = "(KvOk %s (T %s))" % (_opt(a if (a is None or kw is not None) else a[1:]), _codes(c[1:]))
            cases.append(("K", (who,), s, "KV %s %s %s %s %s" % (_opt(kw), b(rq), b(up), _codes(s), exp), repr(got)))
    return cases, r


PRELUDE = """From Coq Require Import List Bool Arith Ascii.
From FV Require Import SplitLine Text Reader StmtBase Srm.
Import ListNotations.
Definition T (l : list nat) : text := map ch l.
Definition oeq (a b : option text) : bool := match a, b with Some x, Some y => text_eqb x y | None, None => true | _, _ => false end.
Fixpoint leq (a b : list text) : bool := match a, b with [] , [] => true | x :: r, y :: s => text_eqb x y && leq r s | _, _ => false end.
Definition shape2 (l : list tok2) : text := map (fun t => match t with C2 c => c | S2 _ => ch 1 | P2 _ => ch 2 end) l.
Definition RM s sh re : bool := let l := srm (T s) in text_eqb (shape2 l) (T sh) && text_eqb (flat2 l) (T re).
Definition SQ sep s (ex : list text) : bool := leq (seq_match (ch sep) (T s)) ex.
Definition sepres_eqb (a b : sepres) : bool := match a, b with SepNo, SepNo => true | SepOk l r, SepOk l' r' => oeq l l' && oeq r r' | _, _ => false end.
Definition SP hl hr ql qr s ex : bool := sepres_eqb (sep_match hl hr ql qr (T s)) ex.
Definition callres_eqb (a b : callres) : bool := match a, b with CallNo, CallNo => true | CallOk l r, CallOk l' r' => text_eqb l l' && oeq r r' | _, _ => false end.
Definition CL kw up rq s ex : bool := callres_eqb (call_match kw up rq (T s)) ex.
Definition kvres_eqb (a b : kvres) : bool := match a, b with KvNo, KvNo => true | KvOk l r, KvOk l' r' => oeq l l' && text_eqb r r' | _, _ => false end.
Definition KV kw rq up s ex : bool := kvres_eqb (kv_match kw rq up (T s)) ex.
Fixpoint bad (l : list bool) (i : nat) : list nat := match l with [] => [] | x :: r => if x then bad r (S i) else i :: bad r (S i) end.
"""


def corr(seed, n_each):
    cases, r = run_python(seed, n_each)
    d = os.environ.get("VERIF_CORR_DIR") or os.path.join(COQ, "Corr")
    os.makedirs(d, exist_ok=True)
    path = os.path.join(d, "SrmCases.v")
    with open(path, "w") as f:
        f.write(PRELUDE + "Definition cases : list bool := [\n" + ";\n".join(c[3] for c in cases) + "].\nEval vm_compute in (bad cases 0).\n")
    extra = ["-Q", os.environ["VERIF_COQ_EXTRA"], "FV"] if os.environ.get("VERIF_COQ_EXTRA") else []   # development only
    pr = subprocess.run(["timeout", "900", "coqc", "-Q", COQ, "FV"] + extra + [path], capture_output=True, text=True, cwd=COQ)
    out = pr.stdout + pr.stderr
    dis = []
    if pr.returncode != 0 or "= [" not in out:
        dis.append(dict(what="the cases file does not compile", log=out[-600:]))
    else:
        body = out.split("= [", 1)[1].split("]", 1)[0]
        idx = [int(x) for x in body.replace("\n", " ").split(";") if x.strip()]
        for i in idx[:20]:
            kind, par, s, exp, got = cases[i]
            dis.append(dict(what="model and implementation differ", who=par[0], input=s, implementation=str(got)[:300]))
    for ext in (".vo", ".vok", ".vos", ".glob"):
        try:
            os.unlink(path[:-2] + ext)
        except OSError:
            pass
    try:
        os.unlink(os.path.join(d, ".SrmCases.aux"))
    except OSError:
        pass
    kinds = {}
    for c in cases:
        kinds[c[0]] = kinds.get(c[0], 0) + 1
    return dict(cases=len(cases), disagreements=dis, by_kind=kinds, sequence_classes=len(r["seq"]), separator_classes=len(r["sep"]),
                call_classes=len(r["call"]), keyword_value_classes=len(r["kv"]),
                not_modelled=["%s:%s (%s)" % x for x in r["skipped"]],
                samples=[dict(who=cases[k][1][0], input=cases[k][2], implementation=str(cases[k][4])[:120]) for k in (5, len(cases) // 2, len(cases) - 3)
                         if k < len(cases)])


if __name__ == "__main__":
    import json
    import sys
    sys.path.insert(0, "/repo/src")
    print(json.dumps(corr(int(sys.argv[1]) if len(sys.argv) > 1 else 1, int(sys.argv[2]) if len(sys.argv) > 2 else 60), indent=1)[:6000])
