"""Helpers that run the REAL fparser (imported from /repo/src) and canonicalise what it does."""
import logging
import os
import re
import sys

REPO_SRC = os.environ.get("FPARSER_SRC", "/repo/src")
if REPO_SRC not in sys.path:
    sys.path.insert(0, REPO_SRC)
logging.disable(logging.CRITICAL)

from fparser.two.parser import ParserFactory  # noqa: E402
from fparser.two import utils, Fortran2003 as F3, Fortran2008 as F8, C99Preprocessor as CPP  # noqa: E402
from fparser.two.symbol_table import SYMBOL_TABLES  # noqa: E402
from fparser.common import readfortran  # noqa: E402
from fparser.common.readfortran import FortranStringReader, FortranFileReader  # noqa: E402
from fparser.common.sourceinfo import FortranFormat  # noqa: E402

_parsers = {}
_current_std = [None]


def parser(std):
    """ParserFactory().create(std) -- re-created whenever the standard changes, as a user would."""
    if _current_std[0] != std or std not in _parsers:
        _parsers[std] = ParserFactory().create(std=std)
        _current_std[0] = std
    return _parsers[std]


def fresh_parser(std):
    _current_std[0] = None
    return parser(std)


def reader(src, ignore_comments=True, process_directives=False, free=None, **kw):
    rd = FortranStringReader(src, ignore_comments=ignore_comments,
                             process_directives=process_directives, **kw)
    if free is not None:
        rd.set_format(FortranFormat(free, False))
    return rd


class Outcome:
    """Result of one real parse: kind in {tree, none, syntax, escape:<ExcName>}."""

    def __init__(self, kind, tree=None, exc=None, line=None, text=None):
        self.kind, self.tree, self.exc, self.line, self.text = kind, tree, exc, line, text

    def __repr__(self):
        return "Outcome(%s, line=%r)" % (self.kind, self.line)


_AT_LINE = re.compile(r"at line (\d+)\n>>>(.*)\n?")


def parse(src, std="f2003", rd=None, clear=True, **kw):
    """Parse with the real fparser2, catching everything (BaseException included)."""
    p = parser(std)
    if clear:
        SYMBOL_TABLES.clear()
    if rd is None:
        rd = reader(src, **kw)
    try:
        t = p(rd)
    except utils.FortranSyntaxError as e:
        m = _AT_LINE.search(str(e))
        return Outcome("syntax", exc=e, line=int(m.group(1)) if m else None,
                       text=m.group(2) if m else None)
    except SystemExit as e:
        return Outcome("escape:SystemExit", exc=e)
    except BaseException as e:  # noqa
        return Outcome("escape:" + type(e).__name__, exc=e)
    if t is None:
        return Outcome("none")
    return Outcome("tree", tree=t)


class CallCounter:
    """Counts Base.__new__ calls, separately for reader arguments and string arguments
    (wrapped from the harness; no hook in the source)."""

    def __init__(self):
        self.reader_calls = 0
        self.string_calls = 0

    def __enter__(self):
        self.orig = utils.Base.__dict__["__new__"]
        orig = self.orig
        me = self

        def counting_new(cls, string, *a, **k):
            if isinstance(string, readfortran.FortranReaderBase):
                me.reader_calls += 1
            else:
                me.string_calls += 1
            return orig(cls, string, *a, **k)
        utils.Base.__new__ = counting_new
        return self

    def __exit__(self, *a):
        utils.Base.__new__ = self.orig


def track_items(rd):
    """Give every item the reader delivers an index in order of first delivery."""
    seen = {}
    order = []
    orig_next = rd.next

    def nxt(ignore_comments=None):
        it = orig_next(ignore_comments=ignore_comments)
        if id(it) not in seen:
            seen[id(it)] = len(order)
            order.append(it)
        return it
    rd.next = nxt
    return seen, order


def tables_str(intern=None):
    """Canonical string of SYMBOL_TABLES: name(children...) for every top-level table."""
    def nm(n):
        return str(intern(n)) if intern else n

    def rec(t):
        return nm(t.name) + "(" + ",".join(rec(c) for c in t.children) + ")"
    return ",".join(rec(t) for t in SYMBOL_TABLES._symbol_tables.values())


def scope_depth():
    d = 0
    t = SYMBOL_TABLES.current_scope
    while t is not None:
        d += 1
        t = t.parent
    return d


def canon_repr(tree):
    """repr with the synthetic names of unnamed BLOCKs renumbered in order of appearance."""
    s = repr(tree)
    return renumber_blocks(s)


_BLK = re.compile(r"block:(\d+)")


def renumber_blocks(s):
    m = {}

    def f(mo):
        k = mo.group(1)
        if k not in m:
            m[k] = str(len(m) + 1)
        return "block:" + m[k]
    return _BLK.sub(f, s)


def block_shape(tree, skip=()):
    """Block structure of a parse tree: (class name, [children]) for block nodes, (class name, text)
    for statements; nodes whose class name starts with one of `skip` are left out."""
    def rec(n):
        nm = type(n).__name__
        if isinstance(n, utils.BlockBase):
            if not skip:
                return (nm, [rec(c) for c in n.content])
            kids = [rec(c) for c in n.content if not type(c).__name__.startswith(tuple(skip))]
            # a container left empty once the skipped nodes are gone existed only to hold them
            kids = [k for k in kids if not (isinstance(k[1], list) and not k[1])]
            return (nm, kids)
        return (nm, renumber_blocks(str(n)))
    return rec(tree)


def comment_nodes(tree):
    """texts of the Comment / Directive nodes in source order with their class names"""
    return [(type(n).__name__, str(n)) for n in utils.walk(tree, (F3.Comment, F3.Directive))]


def tree_invariants(root):
    """C10 invariants on a real tree; returns a list of violation strings (empty = well formed)."""
    bad = []
    seen = {}

    def kids_of(n):
        out = []

        def flat(v):
            if isinstance(v, utils.Base):
                out.append(v)
            elif isinstance(v, (list, tuple)):
                for x in v:
                    flat(x)
        flat(n.children)
        return out

    order = []

    def rec(n, parent):
        if id(n) in seen:
            bad.append("node %s %r occurs more than once" % (type(n).__name__, str(n)[:40]))
            return
        seen[id(n)] = n
        order.append(n)
        if n.parent is not parent:
            bad.append("%s %r: .parent is %s, it is a child of %s" % (
                type(n).__name__, str(n)[:40], type(n.parent).__name__ if n.parent is not None else None,
                type(parent).__name__ if parent is not None else None))
        if n.get_root() is not root:
            bad.append("%s %r: get_root() does not return the root" % (type(n).__name__, str(n)[:40]))
        for k in kids_of(n):
            rec(k, n)
    rec(root, None)
    walked = [n for n in utils.walk(root) if isinstance(n, utils.Base)]
    if [id(n) for n in walked] != [id(n) for n in order]:
        missing = [n for n in order if id(n) not in {id(w) for w in walked}]
        dup = len(walked) - len({id(w) for w in walked})
        bad.append("walk() does not visit every node exactly once in pre-order (missing %d e.g. %s; duplicates %d)"
                   % (len(missing), [type(m).__name__ + ":" + str(m)[:20] for m in missing[:3]], dup))
    # the statements walk() yields (nodes that are lines of a block) print in the order of the regenerated source
    stm = [n for n in walked if isinstance(n.parent, utils.BlockBase) and not isinstance(n, utils.BlockBase)]
    lines = ["".join(l.split()) for l in str(root).split("\n")]
    pos = 0
    for s in stm:
        t = s.tofortran() if hasattr(s, "tofortran") else str(s)
        first = "".join(t.split("\n")[0].split())
        if not first:
            continue
        try:
            pos = lines.index(first, pos) + 1
        except ValueError:
            bad.append("statement %r is not printed in walk order" % t.strip()[:50])
            break
    return bad[:8]
