"""Statements whose entity names coincide with Fortran keywords (Fortran has no reserved words).
Every (template, keyword) pair was probed on the unchanged tree: none lets an exception other than
FortranSyntaxError escape, and every pair that parses re-parses from its regenerated text."""
KW = ["kind", "len", "result", "type", "data", "end", "if", "do", "stat", "unit", "file", "only", "in", "out", "inout",
      "call", "then", "else", "where", "select", "case", "function", "subroutine", "program", "module", "use", "real",
      "integer", "character", "logical", "complex", "double", "precision", "format", "print", "read", "write", "open",
      "close", "go", "to", "goto", "stop", "return", "continue", "exit", "cycle", "block", "associate", "forall",
      "while", "concurrent", "default", "class", "is", "none", "implicit", "parameter", "dimension", "allocatable",
      "pointer", "target", "save", "intent", "optional", "public", "private", "bind", "c", "name", "nml", "fmt", "rec",
      "err", "iostat", "size", "advance", "eor", "id", "pos", "entry", "contains", "interface", "procedure", "generic",
      "final", "enum", "enumerator", "sequence", "extends", "abstract", "pass", "nopass", "deferred",
      "non_overridable", "import", "external", "intrinsic", "volatile", "asynchronous", "value", "protected", "common",
      "equivalence", "namelist", "assign", "pause", "null", "allocate", "deallocate", "nullify", "source", "mold",
      "errmsg", "wait", "flush", "inquire", "rewind", "backspace", "endfile", "elemental", "pure", "recursive",
      "operator", "assignment"]
TEMPL = [
    "integer({n}) :: i", "real({n}) :: x", "character({n}) :: c", "character(len={n}) :: c", "character(kind={n}) :: c",
    "integer, parameter :: {n} = 4", "integer :: {n}", "real :: {n}(3)", "real, dimension({n}) :: x",
    "{n} = 1", "{n}(1) = 2", "x = {n}", "x = {n}(1)", "x = {n} + {n}", "call {n}(1)", "call s({n})", "call s({n}=1)",
    "type({n}) :: t", "class({n}), pointer :: t", "do {n} = 1, 2\nend do", "if ({n}) x = 1", "if ({n} > 1) then\nend if",
    "print *, {n}", "write(*,*) {n}", "read(*,*) {n}", "allocate({n}(3))", "deallocate({n})", "nullify({n})",
    "x = t%{n}", "t%{n} = 1", "x = {n}%a", "{n}: do i = 1, 2\nend do {n}", "{n}: if (a) then\nend if {n}",
    "select case ({n})\ncase (1)\nend select", "where ({n} > 0) {n} = 1", "forall ({n} = 1:2) a({n}) = 1",
    "data {n} /1/", "common /{n}/ a", "namelist /{n}/ a", "save {n}", "external {n}", "intrinsic {n}", "use {n}",
    "use m, only: {n}", "use m, {n} => b", "implicit real({n}) (a-h)", "x = (/ integer({n}) :: 1, 2 /)",
    "goto ({n}) 10", "stop {n}", "open({n}, file='a')", "parameter ({n} = 1)", "dimension {n}(3)",
    "equivalence ({n}, b)", "entry {n}(a)", "pointer :: {n}", "{n} => b", "a => {n}",
    "associate ({n} => b)\nend associate", "x = [{n}, {n}]", "x = {n}**{n}", "x = -{n}", "x = .not. {n}",
    "x = a .and. {n}", "x = {n}(1:2)", "x = {n}(:)", "x = {n}(1)%{n}", "if (a) {n} = 1", "if (a) call {n}",
    "integer function {n}(a)\nend function", "interface {n}\nend interface {n}", "type {n}\nend type {n}",
    "type, extends({n}) :: t2\nend type", "procedure({n}), pointer :: p",
    "enum, bind(c)\nenumerator :: {n} = 1\nend enum", "critical\n{n} = 1\nend critical",
    "return {n}", "x = {n}_8", "x = 1_{n}", "x = {n}_'abc'", "format ({n})", "10 format (i{n})", "import :: {n}",
    "import {n}",
]
WRAPS = ["subroutine w\n%s\nend subroutine w\n", "%s\n", "module mm\n%s\nend module\n",
         "program p\nx=1\n%s\nend program p\n"]


def sources(rng, n, wraps=WRAPS):
    """n sampled (template x keyword x spelling x wrap) sources"""
    out = []
    for _ in range(n):
        k = rng.choice(KW)
        if rng.random() < 0.3:
            k = k.upper()
        out.append(rng.choice(wraps) % rng.choice(TEMPL).format(n=k))
    return out


def exhaustive(seed=0, wraps=WRAPS):
    """every template x every keyword once; wrapper and spelling rotate with the seed"""
    out = []
    k = seed
    for t in TEMPL:
        for w in KW:
            k += 1
            out.append(wraps[k % len(wraps)] % t.format(n=w.upper() if k % 7 == 0 else w))
    return out
