"""Shared machinery of the checks: Coq build (Leg P), evidence, known findings, replays, verdict."""
import fcntl
import glob
import hashlib
import json
import os
import random
import re
import subprocess
import sys
import time

VERIF = os.path.dirname(os.path.dirname(os.path.abspath(__file__)))
COQ = os.path.join(VERIF, "coq")
REPO = "/repo"
sys.path.insert(0, os.path.join(VERIF, "tools"))

TRUSTED_BASE = [
    "Coq 8.16.1 kernel (coqc, full .vo build; vm_compute used for table obligations and witnesses; no native_compute)",
    "tools/translate.py: reflective dump of the live fparser classes into coq/Gen/*.v (fail-closed)",
    "correspondence harness: extracted OCaml model (ExtrOcamlBasic, ExtrOcamlString; no Extract Constant) "
    "vs /repo/src fparser under /venv/bin/python",
    "leaf oracle L (the ~400 statement-level match bodies), atom_ok, statement tostr: section variables, "
    "theorems hold for every value; hypotheses on them are named in the theorem and measured, not proved",
]


class Ctx:
    def __init__(self, pid, tier, seed):
        self.pid, self.tier, self.seed = pid, tier, seed
        self.rng = random.Random(seed * 1000003 + int(pid[1:]))
        self.t0 = time.time()
        self.violations = []      # (signature, description, replay_dict)
        self.known_hits = []
        self.notes = []
        self.quick = tier == "quick"

    def n(self, quick, thorough):
        return quick if self.quick else thorough


# ------------------------------------------------------------------------------------ Leg P
def coq_lint():
    """No Admitted/admit/Axiom/Parameter/Conjecture/guard switches anywhere in the development."""
    bad = []
    pat = re.compile(r"\b(Admitted|admit|Axiom|Axioms|Parameter|Parameters|Conjecture|Conjectures|"
                     r"Admit Obligations|bypass_check|Unset Guard Checking|Unset Positivity Checking|"
                     r"Unset Universe Checking|type-in-type|impredicative-set)\b")
    outside_section_var = re.compile(r"^\s*(Variable|Variables|Hypothesis|Hypotheses)\b")
    for fn in sorted(glob.glob(os.path.join(COQ, "**", "*.v"), recursive=True)):
        depth = 0
        text = open(fn).read()
        text = re.sub(r"\(\*.*?\*\)", lambda m: " " * len(m.group(0)) if "\n" not in m.group(0)
                      else re.sub(r"[^\n]", " ", m.group(0)), text, flags=re.S)
        for ln, line in enumerate(text.split("\n"), 1):
            if re.match(r"^\s*Section\b", line):
                depth += 1
            elif re.match(r"^\s*End\b", line) and depth > 0:
                depth -= 1
            if pat.search(line):
                bad.append("%s:%d: %s" % (os.path.relpath(fn, VERIF), ln, line.strip()))
            if depth == 0 and outside_section_var.match(line):
                bad.append("%s:%d: %s outside a section" % (os.path.relpath(fn, VERIF), ln, line.strip()))
    return bad


def regenerate():
    """Regenerate coq/Gen/*.v from /repo's current source (in a subprocess: fresh import state)."""
    r = subprocess.run([sys.executable, os.path.join(VERIF, "tools", "translate_all.py")],
                       capture_output=True, text=True, timeout=600,
                       env=dict(os.environ, PYTHONHASHSEED="0", PYTHONPATH="/repo/src"))
    return r.returncode == 0, (r.stdout + r.stderr)[-4000:]


def coq_build(targets, timeout=1500):
    """make <targets> in coq/ under a lock; returns (ok, log, assumptions: {theorem: text})."""
    os.makedirs(COQ, exist_ok=True)
    lock = open(os.path.join(COQ, ".lock"), "w")
    fcntl.flock(lock, fcntl.LOCK_EX)
    try:
        ok, log = regenerate()
        if not ok:
            return False, "TRANSLATOR FAILED\n" + log, {}
        if not os.path.exists(os.path.join(COQ, "Makefile")):
            subprocess.run(["coq_makefile", "-f", "_CoqProject", "-o", "Makefile"], cwd=COQ,
                           capture_output=True, timeout=120)
        for t in targets:   # force re-check of the property file itself on every run
            vo = os.path.join(COQ, t)
            if os.path.exists(vo):
                os.unlink(vo)
        r = subprocess.run(["timeout", str(timeout), "make", "-j8"] + targets, cwd=COQ,
                           capture_output=True, text=True)
        out = r.stdout + r.stderr
        if r.returncode == 0:
            # keep the extracted OCaml drivers in step with the models (a no-op unless a model file changed)
            subprocess.run(["timeout", "600", "make", "Extract.vo"], cwd=COQ, capture_output=True, text=True)
            ext = os.path.join(VERIF, "ocaml", "extracted")
            drv = os.path.join(VERIF, "ocaml", "_build", "sldriver")
            newest = max([os.path.getmtime(os.path.join(ext, f)) for f in os.listdir(ext)] or [0]) if os.path.isdir(ext) else 0
            if not os.path.exists(drv) or os.path.getmtime(drv) < newest:
                subprocess.run(["timeout", "600", "sh", os.path.join(VERIF, "ocaml", "build.sh")], capture_output=True, text=True)
        return r.returncode == 0, out, parse_assumptions(out)
    finally:
        fcntl.flock(lock, fcntl.LOCK_UN)
        lock.close()


def parse_assumptions(out):
    """'Print Assumptions' output following each theorem: we print a marker line before each."""
    res = {}
    cur = None
    buf = []
    for line in out.split("\n"):
        m = re.match(r"^ASSUMPTIONS-OF (\S+)", line)
        if m:
            if cur:
                res[cur] = "\n".join(buf).strip()
            cur, buf = m.group(1), []
        elif cur is not None:
            if line.startswith("COQC") or line.startswith("make") or line.startswith("ASSUMPTIONS-END"):
                res[cur] = "\n".join(buf).strip()
                cur, buf = None, []
            else:
                buf.append(line)
    if cur:
        res[cur] = "\n".join(buf).strip()
    return res


def theorems_in(vfile):
    text = open(os.path.join(COQ, vfile)).read()
    text = re.sub(r"\(\*.*?\*\)", "", text, flags=re.S)
    return re.findall(r"^\s*(?:Theorem|Example)\s+(\w+)", text, flags=re.M)


# ------------------------------------------------------------------------------------ findings
def load_known():
    known = []
    p = os.path.join(VERIF, "KNOWN_FINDINGS.txt")
    if os.path.exists(p):
        for line in open(p):
            line = line.strip()
            m = re.match(r"^known: property=(\S+) sig=(\S+) (.*)$", line)
            if m:
                known.append((m.group(1), m.group(2), m.group(3)))
    return known


def write_replay(pid, data):
    d = os.path.join(VERIF, "replays")
    os.makedirs(d, exist_ok=True)
    blob = json.dumps(data, sort_keys=True, indent=1, default=str)
    h = hashlib.sha1(blob.encode()).hexdigest()[:12]
    p = os.path.join(d, "%s-%s.json" % (pid, h))
    with open(p, "w") as f:
        f.write(blob)
    return p


def write_evidence(ctx, coverage, assumptions, violations):
    d = os.path.join(VERIF, "evidence")
    os.makedirs(d, exist_ok=True)
    ev = dict(property_id=ctx.pid, tier=ctx.tier, seed=ctx.seed, level="proof", coverage=coverage,
              assumptions=assumptions, wall_s=round(time.time() - ctx.t0, 2), violations=violations)
    with open(os.path.join(d, ctx.pid + ".json"), "w") as f:
        json.dump(ev, f, indent=1, default=str)


def finish(ctx, proof, corr, e2e, extra_assumptions=()):
    """Common verdict logic (DESIGN 2.4).
    proof: dict(ok, log, obligations, discharged, assumptions, partial, lint)
    corr:  dict(cases, disagreements=[{...}], ...)       model vs implementation
    e2e:   dict(cases, failures=[(sig, desc, replay)], distinct, samples, ...)   property on the implementation
    """
    known = load_known()
    rc = 0
    lines = []
    nviol = 0
    seen_known = set()
    for sig, desc, rep in e2e.get("failures", []):
        k = [x for x in known if x[0] == ctx.pid and x[1] == sig]
        if k:
            if sig not in seen_known:
                seen_known.add(sig)
                lines.append("KNOWN-FINDING: property=%s %s [%s]" % (ctx.pid, k[0][2], sig))
            continue
        nviol += 1
        if os.environ.get("VERIF_SHOW_SIGS"):
            print("UNKNOWN-SIG %s :: %s" % (sig, str(desc)[:300]))
        if nviol <= 5:
            path = write_replay(ctx.pid, dict(property=ctx.pid, kind="implementation breaks the property",
                                               signature=sig, description=desc, **rep))
            lines.append("VIOLATION property=%s replay=%s" % (ctx.pid, path))
        rc = 1
    broken = []
    if not proof["ok"]:
        broken.append("Leg P: " + proof.get("why", "proof obligations no longer check"))
    if corr.get("disagreements"):
        broken.append("Leg C: model and implementation disagree on %d case(s)" % len(corr["disagreements"]))
    if broken and nviol == 0:
        # the property is no longer shown to hold; the directed search (e2e at this tier, already
        # run above with the generators of this property) found no input on which the implementation fails
        path = write_replay(ctx.pid, dict(property=ctx.pid, kind="obligation or correspondence no longer checks",
                                           broken=broken, proof_log=proof.get("log", "")[-3000:],
                                           disagreements=corr.get("disagreements", [])[:5]))
        lines.append("VIOLATION property=%s replay=%s no-failing-input-found" % (ctx.pid, path))
        rc = 1
        nviol += 1
    coverage = dict(
        obligations=proof.get("obligations", 0), discharged=proof.get("discharged", 0),
        checker_cmd="make -C coq %s (coqc 8.16.1, full .vo build) after regenerating coq/Gen from /repo"
                    % " ".join(proof.get("targets", [])),
        trusted_base=TRUSTED_BASE + list(proof.get("axioms", [])),
        theorems=proof.get("theorems", []), print_assumptions=proof.get("assumptions", {}),
        partial=proof.get("partial", []), lint=proof.get("lint", []),
        correspondence={k: v for k, v in corr.items() if k != "disagreements"},
        correspondence_disagreements=len(corr.get("disagreements", [])),
        e2e={k: v for k, v in e2e.items() if k not in ("failures",)},
        evaluations=corr.get("cases", 0) + e2e.get("cases", 0),
        distinct_nontrivial=e2e.get("distinct", 0) + corr.get("distinct", 0),
        rule=e2e.get("rule", ""), samples=(e2e.get("samples", []) + corr.get("samples", []))[:6] or ["(none)"],
        known_findings_hit=sorted(seen_known), notes=ctx.notes)
    write_evidence(ctx, coverage, list(extra_assumptions), nviol)
    for ln in lines:
        print(ln)
    print("%s %s: proof %s (%d/%d obligations), correspondence %d cases / %d disagreements, "
          "e2e %d cases / %d failures (%d known signatures) in %.1fs" % (
              ctx.pid, ctx.tier, "ok" if proof["ok"] else "BROKEN", proof.get("discharged", 0),
              proof.get("obligations", 0), corr.get("cases", 0), len(corr.get("disagreements", [])),
              e2e.get("cases", 0), len(e2e.get("failures", [])), len(seen_known), time.time() - ctx.t0))
    return rc


def leg_p(ctx, targets):
    """Build the property file(s); count theorems and their Print Assumptions results."""
    lint = coq_lint()
    ok, log, ass = coq_build(targets)
    thms = []
    for t in targets:
        thms += theorems_in(t[:-1])  # .vo -> .v
    closed = [t for t in thms if t in ass]
    axioms = sorted({a.strip() for t in ass.values() if "Closed under the global context" not in t
                     for a in t.split("\n") if a.strip() and not a.startswith(" ")})
    why = None
    if lint:
        ok, why = False, "lint: " + "; ".join(lint[:3])
    elif not ok:
        m = re.search(r"(File .*?\n(?:.*\n){0,12})", log)
        why = "coq build failed: " + (m.group(1)[:1500] if m else log[-1500:])
    partial = [t for t in thms if t.endswith("_partial")]
    return dict(ok=ok, log=log, why=why, targets=targets, theorems=thms, obligations=len(thms),
                discharged=len(closed) if ok else 0, assumptions=ass, axioms=axioms, lint=lint,
                partial=partial)
